// Package simnet replaces "net" for unix-domain sockets: listeners are keyed
// by path and own a socket node in simos; connections are in-memory duplex
// streams with deadlines on the fake clock. Other networks fall through to
// the real package (never used inside a simulation).
package simnet

import (
	"errors"
	"io"
	"net"
	"os"
	"path"
	"strings"
	"syscall"
	"time"

	"github.com/ErdemOzgen/blackdagger/internal/verifsim/simos"
	"github.com/ErdemOzgen/blackdagger/internal/verifsim/simrt"
)

type (
	Listener   = net.Listener
	Conn       = net.Conn
	Error      = net.Error
	Addr       = net.Addr
	OpError    = net.OpError
	UnixAddr   = net.UnixAddr
	TCPAddr    = net.TCPAddr
	IP         = net.IP
	Dialer     = net.Dialer
	TCPListener = net.TCPListener
	TCPConn    = net.TCPConn
	UnixConn   = net.UnixConn
)

var ErrClosed = net.ErrClosed

func JoinHostPort(host, port string) string               { return net.JoinHostPort(host, port) }
func SplitHostPort(hostport string) (string, string, error) { return net.SplitHostPort(hostport) }
func ParseIP(s string) net.IP                             { return net.ParseIP(s) }

type listener struct {
	path    string
	fs      *simos.FS
	owner   *simrt.Proc
	backlog []*conn
	closed  bool
	q       simrt.WaitQ
}

type half struct {
	buf    []byte
	closed bool // writer side closed: reader gets EOF after draining
}

type conn struct {
	rd, wr   *half
	peer     *conn
	q        *simrt.WaitQ // shared by both ends
	closed   bool
	rdl, wdl time.Time
	laddr    string
	raddr    string
	owner    *simrt.Proc
	reset    bool // peer process died: reads fail with ECONNRESET once drained
}

func sockets(f *simos.FS) map[string]*listener {
	if v, ok := f.Data["sockets"]; ok {
		return v.(map[string]*listener)
	}
	m := map[string]*listener{}
	f.Data["sockets"] = m
	return m
}

func abs(p string) string {
	if !strings.HasPrefix(p, "/") {
		p = simos.Cwd() + "/" + p
	}
	return path.Clean(p)
}

func opErr(op, addr string, err error) error {
	return &net.OpError{Op: op, Net: "unix", Addr: &net.UnixAddr{Name: addr, Net: "unix"}, Err: os.NewSyscallError(sysName(op), err)}
}

func sysName(op string) string {
	switch op {
	case "listen":
		return "bind"
	case "dial":
		return "connect"
	}
	return op
}

func Listen(network, address string) (net.Listener, error) {
	if network != "unix" || simrt.Current() == nil {
		if network == "unix" {
			return nil, errors.New("simnet: unix listen outside a simulation")
		}
		return net.Listen(network, address)
	}
	ap := abs(address)
	flt := simrt.Syscall("bind", ap, 0)
	if flt.Kind == simrt.FErr {
		return nil, opErr("listen", address, flt.Errno)
	}
	fsys := simos.CurFS()
	p := simrt.CurProc()
	simrt.Big.Lock()
	if e := fsys.BindSocketLocked(ap); e != 0 {
		simrt.Big.Unlock()
		return nil, opErr("listen", address, e)
	}
	l := &listener{path: ap, fs: fsys, owner: p}
	sockets(fsys)[ap] = l
	if w := simrt.Current(); w != nil {
		// for oracles: which processes' bind succeeded (the "bind" operation is visible before its outcome is)
		m, _ := w.Data["sock_bound"].(map[int]bool)
		if m == nil {
			m = map[int]bool{}
			w.Data["sock_bound"] = m
		}
		m[p.Pid] = true
	}
	p.AtExit(func() {
		// a dead process's listener vanishes; the socket file stays behind
		if !l.closed {
			l.closed = true
			if sockets(fsys)[ap] == l {
				delete(sockets(fsys), ap)
			}
			for _, c := range l.backlog {
				c.abortLocked()
			}
			l.q.Broadcast()
		}
	})
	simrt.Big.Unlock()
	simrt.AfterSyscall(flt, "bind", ap)
	return l, nil
}

func (l *listener) Addr() net.Addr { return &net.UnixAddr{Name: l.path, Net: "unix"} }

func (l *listener) Accept() (net.Conn, error) {
	g := simrt.CurG()
	if flt := simrt.Syscall("accept", l.path, 0); flt.Kind == simrt.FErr {
		// a transient accept(2) failure (EMFILE, ENFILE, ECONNABORTED): the listener itself stays usable
		if w := simrt.Current(); w != nil {
			w.CountFault("accept_error")
		}
		return nil, &net.OpError{Op: "accept", Net: "unix", Addr: l.Addr(), Err: flt.Errno}
	}
	for {
		simrt.Big.Lock()
		if l.closed {
			simrt.Big.Unlock()
			return nil, &net.OpError{Op: "accept", Net: "unix", Addr: l.Addr(), Err: net.ErrClosed}
		}
		if len(l.backlog) > 0 {
			c := l.backlog[0]
			l.backlog = l.backlog[1:]
			c.owner = simrt.CurProc()
			if c.owner != nil {
				cc := c
				c.owner.AtExit(func() { cc.abortLocked() })
			}
			simrt.Big.Unlock()
			return c, nil
		}
		l.q.Wait(g, time.Time{})
	}
}

// Close closes the listener and, like Go's UnixListener, unlinks the socket file.
func (l *listener) Close() error {
	simrt.Syscall("close", l.path, 0)
	simrt.Big.Lock()
	defer simrt.Big.Unlock()
	if l.closed {
		return &net.OpError{Op: "close", Net: "unix", Addr: l.Addr(), Err: net.ErrClosed}
	}
	l.closed = true
	if sockets(l.fs)[l.path] == l {
		delete(sockets(l.fs), l.path)
		if l.fs.NodeKindLocked(l.path) == "sock" {
			l.fs.UnlinkLocked(l.path)
		}
	}
	for _, c := range l.backlog {
		c.abortLocked()
	}
	l.backlog = nil
	l.q.Broadcast()
	return nil
}

func Dial(network, address string) (net.Conn, error) { return DialTimeout(network, address, 0) }

func DialTimeout(network, address string, timeout time.Duration) (net.Conn, error) {
	if network != "unix" || simrt.Current() == nil {
		if network == "unix" {
			return nil, opErr("dial", address, syscall.ENOENT)
		}
		return net.DialTimeout(network, address, timeout)
	}
	ap := abs(address)
	flt := simrt.Syscall("connect", ap, 0)
	if flt.Kind == simrt.FErr {
		return nil, opErr("dial", address, flt.Errno)
	}
	fsys := simos.CurFS()
	p := simrt.CurProc()
	simrt.Big.Lock()
	defer simrt.Big.Unlock()
	switch fsys.NodeKindLocked(ap) {
	case "":
		return nil, opErr("dial", address, syscall.ENOENT)
	case "sock":
	default:
		return nil, opErr("dial", address, syscall.ECONNREFUSED)
	}
	l := sockets(fsys)[ap]
	if l == nil || l.closed {
		return nil, opErr("dial", address, syscall.ECONNREFUSED)
	}
	q := &simrt.WaitQ{}
	a2b, b2a := &half{}, &half{}
	cl := &conn{rd: b2a, wr: a2b, q: q, laddr: "@", raddr: ap, owner: p}
	sv := &conn{rd: a2b, wr: b2a, q: q, laddr: ap, raddr: "@"}
	cl.peer, sv.peer = sv, cl
	l.backlog = append(l.backlog, sv)
	l.q.Broadcast()
	p.AtExit(func() { cl.abortLocked() })
	return cl, nil
}

// abortLocked: the owning process died (or the listener went away): the peer sees EOF/reset.
func (c *conn) abortLocked() {
	if c.closed {
		return
	}
	c.closed = true
	c.wr.closed = true
	if c.peer != nil {
		c.peer.reset = true
	}
	c.q.Broadcast()
}

type timeoutError struct{}

func (timeoutError) Error() string   { return "i/o timeout" }
func (timeoutError) Timeout() bool   { return true }
func (timeoutError) Temporary() bool { return true }
func (timeoutError) Is(err error) bool { return err == os.ErrDeadlineExceeded }

func (c *conn) opErr(op string, err error) error {
	return &net.OpError{Op: op, Net: "unix", Addr: &net.UnixAddr{Name: c.raddr, Net: "unix"}, Err: err}
}

func (c *conn) Read(b []byte) (int, error) {
	g := simrt.CurG()
	simrt.Syscall("recv", c.name(), len(b))
	for {
		simrt.Big.Lock()
		if c.closed {
			simrt.Big.Unlock()
			return 0, c.opErr("read", net.ErrClosed)
		}
		if len(c.rd.buf) > 0 {
			n := copy(b, c.rd.buf)
			c.rd.buf = c.rd.buf[n:]
			c.q.Broadcast()
			simrt.Big.Unlock()
			return n, nil
		}
		if c.rd.closed {
			simrt.Big.Unlock()
			return 0, io.EOF
		}
		if len(b) == 0 {
			simrt.Big.Unlock()
			return 0, nil
		}
		if !c.rdl.IsZero() && !time.Now().Before(c.rdl) {
			simrt.Big.Unlock()
			return 0, c.opErr("read", timeoutError{})
		}
		if g == nil {
			c.q.WaitUnmanaged(c.rdl)
		} else {
			c.q.Wait(g, c.rdl)
		}
	}
}

func (c *conn) Write(b []byte) (int, error) {
	simrt.Syscall("send", c.name(), len(b))
	simrt.Big.Lock()
	defer simrt.Big.Unlock()
	if c.closed {
		return 0, c.opErr("write", net.ErrClosed)
	}
	if c.peer.closed {
		return 0, c.opErr("write", syscall.EPIPE)
	}
	if !c.wdl.IsZero() && !time.Now().Before(c.wdl) {
		return 0, c.opErr("write", timeoutError{})
	}
	c.wr.buf = append(c.wr.buf, b...)
	c.q.Broadcast()
	return len(b), nil
}

func (c *conn) name() string {
	if c.laddr == "@" {
		return c.raddr + "#c"
	}
	return c.laddr + "#s"
}

func (c *conn) Close() error {
	simrt.Syscall("close", c.name(), 0)
	simrt.Big.Lock()
	defer simrt.Big.Unlock()
	if c.closed {
		return c.opErr("close", net.ErrClosed)
	}
	c.closed = true
	c.wr.closed = true
	c.q.Broadcast()
	return nil
}

func (c *conn) LocalAddr() net.Addr  { return &net.UnixAddr{Name: c.laddr, Net: "unix"} }
func (c *conn) RemoteAddr() net.Addr { return &net.UnixAddr{Name: c.raddr, Net: "unix"} }

func (c *conn) SetDeadline(t time.Time) error {
	simrt.Big.Lock()
	c.rdl, c.wdl = t, t
	c.q.Broadcast()
	simrt.Big.Unlock()
	return nil
}

func (c *conn) SetReadDeadline(t time.Time) error {
	simrt.Big.Lock()
	c.rdl = t
	c.q.Broadcast()
	simrt.Big.Unlock()
	return nil
}

func (c *conn) SetWriteDeadline(t time.Time) error {
	simrt.Big.Lock()
	c.wdl = t
	simrt.Big.Unlock()
	return nil
}

// ListenerAlive reports whether a live listener is bound at path in the caller's world (oracle use).
func ListenerAlive(fsys *simos.FS, p string) (*simrt.Proc, bool) {
	simrt.Big.Lock()
	defer simrt.Big.Unlock()
	l := sockets(fsys)[p]
	if l == nil || l.closed {
		return nil, false
	}
	return l.owner, true
}
