// Package simsignal replaces "os/signal" and owns signal delivery to
// simulated processes.
package simsignal

import (
	"context"
	"fmt"
	"os"
	"syscall"

	"github.com/ErdemOzgen/blackdagger/internal/verifsim/simrt"
)

type reg struct {
	c    chan<- os.Signal
	sigs map[int]bool // nil = all
}

func regs(p *simrt.Proc) []*reg {
	v, _ := p.Data["sigregs"].([]*reg)
	return v
}

// Notify registers c for the given signals of the calling simulated process.
func Notify(c chan<- os.Signal, sig ...os.Signal) {
	p := simrt.CurProc()
	if p == nil {
		return // outside a simulation nothing ever delivers signals
	}
	simrt.Big.Lock()
	defer simrt.Big.Unlock()
	r := &reg{c: c}
	if len(sig) > 0 {
		r.sigs = map[int]bool{}
		for _, s := range sig {
			if n, ok := s.(syscall.Signal); ok {
				r.sigs[int(n)] = true
			}
		}
	}
	p.Data["sigregs"] = append(regs(p), r)
}

func Stop(c chan<- os.Signal) {
	p := simrt.CurProc()
	if p == nil {
		return
	}
	simrt.Big.Lock()
	defer simrt.Big.Unlock()
	var out []*reg
	for _, r := range regs(p) {
		if r.c != c {
			out = append(out, r)
		}
	}
	p.Data["sigregs"] = out
}

func Ignore(sig ...os.Signal) {
	p := simrt.CurProc()
	if p == nil {
		return
	}
	simrt.Big.Lock()
	defer simrt.Big.Unlock()
	ig, _ := p.Data["sigign"].(map[int]bool)
	if ig == nil {
		ig = map[int]bool{}
		p.Data["sigign"] = ig
	}
	for _, s := range sig {
		if n, ok := s.(syscall.Signal); ok {
			ig[int(n)] = true
		}
	}
}

func Ignored(sig os.Signal) bool { return false }
func Reset(sig ...os.Signal)     {}

func NotifyContext(parent context.Context, signals ...os.Signal) (context.Context, context.CancelFunc) {
	ctx, cancel := context.WithCancel(parent)
	c := make(chan os.Signal, 1)
	Notify(c, signals...)
	simrt.Go(func() {
		simrt.Yield()
		select {
		case <-c:
			simrt.Woke()
			cancel()
		case <-ctx.Done():
			simrt.Woke()
		case <-simrt.Dead():
			simrt.Die()
		}
	})
	return ctx, func() { cancel(); Stop(c) }
}

// SigName returns "SIGTERM" etc.
func SigName(s syscall.Signal) string {
	switch s {
	case syscall.SIGTERM:
		return "SIGTERM"
	case syscall.SIGKILL:
		return "SIGKILL"
	case syscall.SIGINT:
		return "SIGINT"
	case syscall.SIGHUP:
		return "SIGHUP"
	case syscall.SIGQUIT:
		return "SIGQUIT"
	case syscall.SIGUSR1:
		return "SIGUSR1"
	case syscall.SIGUSR2:
		return "SIGUSR2"
	case syscall.SIGSTOP:
		return "SIGSTOP"
	case syscall.SIGCONT:
		return "SIGCONT"
	case syscall.SIGPIPE:
		return "SIGPIPE"
	case syscall.SIGCHLD:
		return "SIGCHLD"
	case syscall.SIGALRM:
		return "SIGALRM"
	case syscall.SIGTSTP:
		return "SIGTSTP"
	}
	return fmt.Sprintf("SIG%d", int(s))
}

// Deliver sends sig to process p. It is called by the token holder
// (simsyscall.Kill, Process.Signal, the harness).
func Deliver(p *simrt.Proc, sig syscall.Signal) error {
	w := p.W
	simrt.Big.Lock()
	if p.Dead {
		simrt.Big.Unlock()
		return syscall.ESRCH
	}
	simrt.Big.Unlock()
	w.Emit("signal", SigName(sig), p.Name, int64(p.Pid), nil)
	if sig == syscall.SIGKILL {
		w.KillProc(p, "killed")
		return nil
	}
	if sig == 0 {
		return nil
	}
	if p.OnSignal != nil && p.OnSignal(int(sig)) {
		return nil
	}
	simrt.Big.Lock()
	if ig, _ := p.Data["sigign"].(map[int]bool); ig[int(sig)] {
		simrt.Big.Unlock()
		return nil
	}
	var targets []chan<- os.Signal
	for _, r := range regs(p) {
		if r.sigs == nil || r.sigs[int(sig)] {
			targets = append(targets, r.c)
		}
	}
	simrt.Big.Unlock()
	if len(targets) > 0 {
		for _, c := range targets {
			select {
			case c <- sig:
			default:
			}
		}
		return nil
	}
	switch sig {
	case syscall.SIGCHLD, syscall.SIGURG, syscall.SIGWINCH, syscall.SIGCONT:
		return nil
	case syscall.SIGSTOP, syscall.SIGTSTP, syscall.SIGTTIN, syscall.SIGTTOU:
		// job control stop is not modelled: recorded, otherwise ignored
		return nil
	}
	w.KillProc(p, SigName(sig))
	return nil
}
