//go:build verifsim

package cmd

import (
	"github.com/ErdemOzgen/blackdagger/internal/verifsim/simos"
	"github.com/spf13/cobra"
)

// VerifRun executes one CLI invocation inside the calling simulated process:
// a fresh command tree per invocation, the real Run closures of start, retry,
// restart, stop, status, dry and scheduler.
func VerifRun(args []string) int {
	root := &cobra.Command{Use: "blackdagger", SilenceUsage: true, SilenceErrors: true}
	root.AddCommand(startCmd(), stopCmd(), restartCmd(), dryCmd(), statusCmd(), retryCmd(), schedulerCmd())
	root.SetArgs(args)
	root.SetOut(simos.Stdout)
	root.SetErr(simos.Stderr)
	if err := root.Execute(); err != nil {
		return 1
	}
	return 0
}

// VerifResetSignalChan re-creates the package-level signal channel inside the
// current synctest bubble (a channel made at package init is foreign to it).
func VerifResetSignalChan() { signalChan = make(chan simos.Signal, 100) }
