//go:build verifsim

package scheduler

// Read-only observation points for the simulation harness. These files exist
// only in the instrumented scratch copy, never in the repository.

// VerifCanceled reports whether the cancel flag is set. It is read while every
// goroutine of the simulation is parked, hence without the lock.
func (sc *Scheduler) VerifCanceled() bool { return sc.canceled == 1 }

// VerifResetNodeIDs makes node ids (and the STEP_<id>_... variable names derived
// from them) independent of how many runs the worker process executed before.
func VerifResetNodeIDs() { nextNodeID = 1 }

// VerifNodeStatuses returns name -> status text without taking locks.
func (g *ExecutionGraph) VerifNodeStatuses() map[string]string {
	out := map[string]string{}
	for _, n := range g.nodes {
		out[n.data.Step.Name] = n.data.State.Status.String()
	}
	return out
}
