//go:build verifsim

package agent

import "github.com/ErdemOzgen/blackdagger/internal/dag/scheduler"

func (a *Agent) VerifScheduler() *scheduler.Scheduler   { return a.scheduler }
func (a *Agent) VerifGraph() *scheduler.ExecutionGraph { return a.graph }
