//go:build verifsim

package scheduler

import (
	"time"

	"github.com/ErdemOzgen/blackdagger/internal/client"
	"github.com/ErdemOzgen/blackdagger/internal/dag"
)

// VerifJobStart runs the daemon's real start guard (jobImpl.Start) for one DAG and minute.
func VerifJobStart(d *dag.DAG, next time.Time, cli client.Client) error {
	return (&jobImpl{DAG: d, Next: next, Client: cli}).Start()
}

// VerifJobStop runs the daemon's real stop guard.
func VerifJobStop(d *dag.DAG, cli client.Client) error {
	return (&jobImpl{DAG: d, Client: cli}).Stop()
}

var (
	VerifErrJobRunning  = errJobRunning
	VerifErrJobFinished = errJobFinished
)
