package simos

import (
	"errors"
	"io"
	"io/fs"
	"os"
	"path"
	"runtime"
	"sort"
	"strconv"
	"strings"
	"syscall"
	"time"

	"github.com/ErdemOzgen/blackdagger/internal/verifsim/simrt"
)

type fkind int

const (
	fRegular fkind = iota
	fDir
	fPipeR
	fPipeW
	fSink // Stdout/Stderr/Stdin/DevNull
)

// File mirrors *os.File: same method set (including the io.ReaderFrom /
// io.WriterTo upgrades that change how bufio and io.Copy behave).
type File struct {
	name    string
	apath   string
	fs      *FS
	n       *inode
	flag    int
	off     int64
	closed  bool
	kind    fkind
	pipe    *pipe
	noYield bool
	owner   *simrt.Proc
	sink    string
	dirList []string
	dirPos  int
}

type pipe struct {
	buf     []byte
	readers int
	writers int
	q       simrt.WaitQ
	id      int
}

// PipeCap is the capacity of a simulated pipe (Linux default).
const PipeCap = 65536

var (
	Stdin  = &File{name: "/dev/stdin", kind: fSink, sink: "stdin"}
	Stdout = &File{name: "/dev/stdout", kind: fSink, sink: "stdout"}
	Stderr = &File{name: "/dev/stderr", kind: fSink, sink: "stderr"}
)

const DevNull = "/dev/null"

// fds returns the descriptor table of p. Big held.
func fds(p *simrt.Proc) map[*File]struct{} {
	if v, ok := p.Data["fds"]; ok {
		return v.(map[*File]struct{})
	}
	m := map[*File]struct{}{}
	p.Data["fds"] = m
	p.AtExit(func() {
		// the kernel closes every descriptor of a dead process
		var fs []*File
		for f := range m {
			fs = append(fs, f)
		}
		sort.Slice(fs, func(i, j int) bool { return fs[i].name < fs[j].name })
		for _, f := range fs {
			f.closeLocked()
		}
	})
	return m
}

func register(f *File) {
	if p := simrt.CurProc(); p != nil {
		f.owner = p
		fds(p)[f] = struct{}{}
	}
}

// AdoptLocked moves a descriptor into process p's table (simexec: the child
// inherits a duplicate). Big held.
func (f *File) AdoptLocked(p *simrt.Proc) {
	if f.owner != nil {
		delete(fds(f.owner), f)
	}
	f.owner = p
	if p != nil {
		fds(p)[f] = struct{}{}
	}
}

// DupLocked returns a new descriptor for the same open file (pipe ends are
// reference counted). Big held.
func (f *File) DupLocked() *File {
	d := &File{name: f.name, apath: f.apath, fs: f.fs, n: f.n, flag: f.flag, off: f.off, kind: f.kind, pipe: f.pipe, noYield: f.noYield, sink: f.sink}
	switch f.kind {
	case fPipeR:
		f.pipe.readers++
	case fPipeW:
		f.pipe.writers++
	}
	return d
}

// CloseLocked closes the descriptor without being a system call (simexec plumbing). Big held.
func (f *File) CloseLocked() { f.closeLocked() }

func (f *File) closeLocked() {
	if f.closed {
		return
	}
	f.closed = true
	if f.owner != nil {
		delete(fds(f.owner), f)
	}
	switch f.kind {
	case fPipeR:
		f.pipe.readers--
		f.pipe.q.Broadcast()
	case fPipeW:
		f.pipe.writers--
		f.pipe.q.Broadcast()
	}
}

func openedByLogger() bool {
	var pcs [8]uintptr
	n := runtime.Callers(3, pcs[:])
	fr := runtime.CallersFrames(pcs[:n])
	for {
		f, more := fr.Next()
		if strings.Contains(f.Function, "/internal/logger.") {
			return true
		}
		if !more {
			return false
		}
	}
}

const (
	O_RDONLY = os.O_RDONLY
	O_WRONLY = os.O_WRONLY
	O_RDWR   = os.O_RDWR
	O_APPEND = os.O_APPEND
	O_CREATE = os.O_CREATE
	O_EXCL   = os.O_EXCL
	O_SYNC   = os.O_SYNC
	O_TRUNC  = os.O_TRUNC
)

func Open(name string) (*File, error) { return OpenFile(name, O_RDONLY, 0) }

func Create(name string) (*File, error) {
	return OpenFile(name, O_RDWR|O_CREATE|O_TRUNC, 0o666)
}

func OpenFile(name string, flag int, perm fs.FileMode) (*File, error) {
	if name == DevNull {
		return &File{name: name, kind: fSink, sink: "null"}, nil
	}
	ap := abs(name)
	quiet := openedByLogger()
	var flt simrt.Fault
	if !quiet {
		flt = simrt.Syscall("open", ap, 0)
	}
	if flt.Kind == simrt.FErr {
		return nil, perr("open", name, flt.Errno)
	}
	f := CurFS()
	simrt.Big.Lock()
	file, err := f.openLocked(name, ap, flag, perm)
	if err == nil {
		file.noYield = quiet
		register(file)
	}
	simrt.Big.Unlock()
	simrt.AfterSyscall(flt, "open", ap)
	return file, err
}

func (f *FS) openLocked(name, ap string, flag int, perm fs.FileMode) (*File, error) {
	if ap == "" {
		return nil, perr("open", name, syscall.ENOENT)
	}
	n, e := f.lookup(ap)
	wr := flag&(O_WRONLY|O_RDWR) != 0
	switch {
	case e == 0:
		if flag&O_CREATE != 0 && flag&O_EXCL != 0 {
			return nil, perr("open", name, syscall.EEXIST)
		}
		if n.kind == kDir && (wr || flag&O_TRUNC != 0) {
			return nil, perr("open", name, syscall.EISDIR)
		}
		if n.kind == kSock {
			return nil, perr("open", name, syscall.ENXIO)
		}
	case e == syscall.ENOENT && flag&O_CREATE != 0:
		d, base, pe := f.parent(ap)
		if pe != 0 {
			return nil, perr("open", name, pe)
		}
		n = f.newInode(kFile, perm&fs.ModePerm)
		d.children[base] = n
		d.mtime = time.Now()
		f.notify("create", ap)
	default:
		return nil, perr("open", name, e)
	}
	if n.kind == kFile && flag&O_TRUNC != 0 && wr {
		if len(n.data) > 0 {
			n.data = nil
			n.mtime = time.Now()
			f.notify("write", ap)
		} else {
			n.mtime = time.Now()
		}
	}
	file := &File{name: name, apath: ap, fs: f, n: n, flag: flag}
	if n.kind == kDir {
		file.kind = fDir
	}
	return file, nil
}

func (f *File) Name() string { return f.name }

func (f *File) Fd() uintptr { return ^uintptr(0) }

func (f *File) check(op string) error {
	if f == nil {
		return os.ErrInvalid
	}
	if f.closed {
		return perr(op, f.name, os.ErrClosed)
	}
	return nil
}

func (f *File) Close() error {
	if f == nil {
		return os.ErrInvalid
	}
	if f.kind == fSink {
		return nil
	}
	var flt simrt.Fault
	if !f.noYield {
		flt = simrt.Syscall("close", f.apath, 0)
	}
	simrt.Big.Lock()
	if f.closed {
		simrt.Big.Unlock()
		return perr("close", f.name, os.ErrClosed)
	}
	f.closeLocked()
	simrt.Big.Unlock()
	simrt.AfterSyscall(flt, "close", f.apath)
	return nil
}

func (f *File) Sync() error {
	if err := f.check("sync"); err != nil {
		return err
	}
	if f.kind == fSink || f.noYield {
		return nil
	}
	flt := simrt.Syscall("fsync", f.apath, 0)
	if flt.Kind == simrt.FErr {
		return perr("sync", f.name, flt.Errno)
	}
	if f.closed {
		return perr("sync", f.name, os.ErrClosed)
	}
	simrt.AfterSyscall(flt, "fsync", f.apath)
	return nil
}

func (f *File) Stat() (fs.FileInfo, error) {
	if err := f.check("stat"); err != nil {
		return nil, err
	}
	if f.kind == fSink || f.kind == fPipeR || f.kind == fPipeW {
		return &fileInfo{name: path.Base(f.name), mode: fs.ModeNamedPipe | 0o600, mtime: time.Now()}, nil
	}
	if !f.noYield {
		simrt.Syscall("fstat", f.apath, 0)
	}
	simrt.Big.Lock()
	defer simrt.Big.Unlock()
	return infoOf(path.Base(f.name), f.n), nil
}

func (f *File) Read(b []byte) (int, error) {
	if err := f.check("read"); err != nil {
		return 0, err
	}
	switch f.kind {
	case fSink:
		return 0, io.EOF
	case fPipeR:
		return f.pipeRead(b)
	case fPipeW:
		return 0, perr("read", f.name, syscall.EBADF)
	case fDir:
		return 0, perr("read", f.name, syscall.EISDIR)
	}
	if f.flag&(O_WRONLY|O_RDWR) == O_WRONLY {
		return 0, perr("read", f.name, syscall.EBADF)
	}
	var flt simrt.Fault
	if !f.noYield {
		flt = simrt.Syscall("read", f.apath, len(b))
	}
	if flt.Kind == simrt.FErr {
		return 0, perr("read", f.name, flt.Errno)
	}
	simrt.Big.Lock()
	if f.closed {
		simrt.Big.Unlock()
		return 0, perr("read", f.name, os.ErrClosed)
	}
	var n int
	if f.off < int64(len(f.n.data)) {
		n = copy(b, f.n.data[f.off:])
		f.off += int64(n)
	}
	simrt.Big.Unlock()
	simrt.AfterSyscall(flt, "read", f.apath)
	if n == 0 && len(b) > 0 {
		return 0, io.EOF
	}
	return n, nil
}

func (f *File) ReadAt(b []byte, off int64) (int, error) {
	if err := f.check("read"); err != nil {
		return 0, err
	}
	if f.kind != fRegular {
		return 0, perr("read", f.name, syscall.ESPIPE)
	}
	if f.flag&(O_WRONLY|O_RDWR) == O_WRONLY {
		return 0, perr("read", f.name, syscall.EBADF) // a handle opened for writing only cannot be read
	}
	if !f.noYield {
		simrt.Syscall("pread", f.apath, len(b))
	}
	simrt.Big.Lock()
	defer simrt.Big.Unlock()
	if off >= int64(len(f.n.data)) {
		return 0, io.EOF
	}
	n := copy(b, f.n.data[off:])
	if n < len(b) {
		return n, io.EOF
	}
	return n, nil
}

func (f *File) Write(b []byte) (int, error) {
	if err := f.check("write"); err != nil {
		return 0, err
	}
	switch f.kind {
	case fSink:
		captureSink(f.sink, b)
		return len(b), nil
	case fPipeW:
		return f.pipeWrite(b)
	case fPipeR, fDir:
		return 0, perr("write", f.name, syscall.EBADF)
	}
	if f.flag&(O_WRONLY|O_RDWR) == 0 {
		return 0, perr("write", f.name, syscall.EBADF)
	}
	var flt simrt.Fault
	if !f.noYield {
		flt = simrt.Syscall("write", f.apath, len(b))
	} else if p := simrt.CurProc(); p != nil && !p.Alive() {
		return len(b), nil // a dead process writes nothing; die at the next visible op
	}
	nw := len(b)
	var ferr error
	switch flt.Kind {
	case simrt.FErr:
		nw = flt.N
		if nw > len(b) {
			nw = len(b)
		}
		ferr = perr("write", f.name, flt.Errno)
	case simrt.FTorn:
		nw = flt.N
		if nw > len(b) {
			nw = len(b)
		}
	}
	simrt.Big.Lock()
	if f.closed {
		simrt.Big.Unlock()
		return 0, perr("write", f.name, os.ErrClosed)
	}
	if nw > 0 {
		if f.flag&O_APPEND != 0 {
			f.off = int64(len(f.n.data))
		}
		end := f.off + int64(nw)
		if end > int64(len(f.n.data)) {
			nd := make([]byte, end)
			copy(nd, f.n.data)
			f.n.data = nd
		}
		copy(f.n.data[f.off:], b[:nw])
		f.off = end
		f.n.mtime = time.Now()
		f.fs.notify("write", f.apath)
	}
	simrt.Big.Unlock()
	simrt.AfterSyscall(flt, "write", f.apath)
	if ferr != nil {
		return nw, ferr
	}
	return nw, nil
}

func (f *File) WriteAt(b []byte, off int64) (int, error) {
	if err := f.check("write"); err != nil {
		return 0, err
	}
	if f.kind != fRegular {
		return 0, perr("write", f.name, syscall.ESPIPE)
	}
	if f.flag&O_APPEND != 0 {
		return 0, errors.New("os: invalid use of WriteAt on file opened with O_APPEND")
	}
	if len(b) == 0 {
		return 0, nil // nothing to write: no system call is made
	}
	if f.flag&(O_WRONLY|O_RDWR) == 0 {
		return 0, perr("write", f.name, syscall.EBADF) // a handle opened for reading only cannot be written
	}
	flt := simrt.Syscall("pwrite", f.apath, len(b))
	if flt.Kind == simrt.FErr {
		return 0, perr("write", f.name, flt.Errno)
	}
	simrt.Big.Lock()
	end := off + int64(len(b))
	if end > int64(len(f.n.data)) {
		nd := make([]byte, end)
		copy(nd, f.n.data)
		f.n.data = nd
	}
	copy(f.n.data[off:], b)
	f.n.mtime = time.Now()
	f.fs.notify("write", f.apath)
	simrt.Big.Unlock()
	simrt.AfterSyscall(flt, "pwrite", f.apath)
	return len(b), nil
}

func (f *File) WriteString(s string) (int, error) { return f.Write([]byte(s)) }

func (f *File) Seek(offset int64, whence int) (int64, error) {
	if err := f.check("seek"); err != nil {
		return 0, err
	}
	if f.kind != fRegular && f.kind != fDir {
		return 0, perr("seek", f.name, syscall.ESPIPE)
	}
	// lseek has no externally visible effect: not a scheduling point
	simrt.CheckDead()
	simrt.Big.Lock()
	defer simrt.Big.Unlock()
	var base int64
	switch whence {
	case io.SeekStart:
	case io.SeekCurrent:
		base = f.off
	case io.SeekEnd:
		base = int64(len(f.n.data))
	default:
		return 0, perr("seek", f.name, syscall.EINVAL)
	}
	if base+offset < 0 {
		return 0, perr("seek", f.name, syscall.EINVAL)
	}
	f.off = base + offset
	if f.kind == fDir {
		f.dirList = nil
		f.dirPos = 0
	}
	return f.off, nil
}

func (f *File) Truncate(size int64) error {
	if err := f.check("truncate"); err != nil {
		return err
	}
	if f.kind != fRegular {
		return perr("truncate", f.name, syscall.EINVAL)
	}
	flt := simrt.Syscall("ftruncate", f.apath, 0)
	if flt.Kind == simrt.FErr {
		return perr("truncate", f.name, flt.Errno)
	}
	simrt.Big.Lock()
	truncLocked(f.n, size)
	f.fs.notify("write", f.apath)
	simrt.Big.Unlock()
	simrt.AfterSyscall(flt, "ftruncate", f.apath)
	return nil
}

func truncLocked(n *inode, size int64) {
	if size <= int64(len(n.data)) {
		n.data = n.data[:size]
	} else {
		nd := make([]byte, size)
		copy(nd, n.data)
		n.data = nd
	}
	n.mtime = time.Now()
}

func (f *File) Chmod(mode fs.FileMode) error {
	if err := f.check("chmod"); err != nil {
		return err
	}
	if f.n != nil {
		simrt.Big.Lock()
		f.n.mode = f.n.mode&^fs.ModePerm | mode&fs.ModePerm
		simrt.Big.Unlock()
	}
	return nil
}

func (f *File) Chdir() error { return Chdir(f.name) }

func (f *File) SetDeadline(t time.Time) error      { return os.ErrNoDeadline }
func (f *File) SetReadDeadline(t time.Time) error  { return os.ErrNoDeadline }
func (f *File) SetWriteDeadline(t time.Time) error { return os.ErrNoDeadline }

// ReadFrom implements io.ReaderFrom like *os.File (whose fast paths do not
// apply to our sources, so the generic fallback it is).
func (f *File) ReadFrom(r io.Reader) (int64, error) {
	if err := f.check("write"); err != nil {
		return 0, err
	}
	return io.Copy(fileWithoutReadFrom{File: f}, r)
}

type noReadFrom struct{}

func (noReadFrom) ReadFrom(io.Reader) (int64, error) { panic("can't happen") }

// fileWithoutReadFrom hides ReadFrom (ambiguous selector), exactly like package os does.
type fileWithoutReadFrom struct {
	noReadFrom
	*File
}

// WriteTo implements io.WriterTo like *os.File.
func (f *File) WriteTo(w io.Writer) (int64, error) {
	if err := f.check("read"); err != nil {
		return 0, err
	}
	return io.Copy(w, fileWithoutWriteTo{File: f})
}

type noWriteTo struct{}

func (noWriteTo) WriteTo(io.Writer) (int64, error) { panic("can't happen") }

type fileWithoutWriteTo struct {
	noWriteTo
	*File
}

// ---------------------------------------------------------------------------
// directories

func (f *File) loadDir() error {
	if f.kind != fDir {
		return perr("readdirent", f.name, syscall.ENOTDIR)
	}
	if f.dirList != nil || f.dirPos > 0 {
		return nil
	}
	simrt.Syscall("getdents", f.apath, 0)
	simrt.Big.Lock()
	names := make([]string, 0, len(f.n.children))
	for name := range f.n.children {
		names = append(names, name)
	}
	simrt.Big.Unlock()
	sort.Strings(names)
	// directory order is arbitrary on a real file system: make it a seeded choice
	if w := simrt.Current(); w != nil && len(names) > 1 {
		for i := len(names) - 1; i > 0; i-- {
			j := w.Tape.Draw(simrt.SLat, i+1)
			names[i], names[j] = names[j], names[i]
		}
	}
	f.dirList = names
	if f.dirList == nil {
		f.dirList = []string{}
	}
	return nil
}

func (f *File) Readdirnames(n int) ([]string, error) {
	if err := f.check("readdirent"); err != nil {
		return nil, err
	}
	if err := f.loadDir(); err != nil {
		return nil, err
	}
	rest := f.dirList[f.dirPos:]
	if n <= 0 {
		f.dirPos = len(f.dirList)
		return append([]string{}, rest...), nil
	}
	if len(rest) == 0 {
		return nil, io.EOF
	}
	if n > len(rest) {
		n = len(rest)
	}
	f.dirPos += n
	return append([]string{}, rest[:n]...), nil
}

func (f *File) Readdir(n int) ([]fs.FileInfo, error) {
	names, err := f.Readdirnames(n)
	var out []fs.FileInfo
	simrt.Big.Lock()
	for _, name := range names {
		if c, ok := f.n.children[name]; ok {
			out = append(out, infoOf(name, c))
		}
	}
	simrt.Big.Unlock()
	return out, err
}

func (f *File) ReadDir(n int) ([]fs.DirEntry, error) {
	infos, err := f.Readdir(n)
	var out []fs.DirEntry
	for _, fi := range infos {
		out = append(out, dirEntry{fi.(*fileInfo)})
	}
	return out, err
}

// ReadDir reads the named directory, sorted by name (like os.ReadDir).
func ReadDir(name string) ([]fs.DirEntry, error) {
	ap := abs(name)
	flt := simrt.Syscall("readdir", ap, 0)
	if flt.Kind == simrt.FErr {
		return nil, perr("open", name, flt.Errno)
	}
	f := CurFS()
	simrt.Big.Lock()
	defer simrt.Big.Unlock()
	n, e := f.lookup(ap)
	if e != 0 {
		return nil, perr("open", name, e)
	}
	if n.kind != kDir {
		return nil, perr("readdirent", name, syscall.ENOTDIR)
	}
	names := make([]string, 0, len(n.children))
	for c := range n.children {
		names = append(names, c)
	}
	sort.Strings(names)
	out := make([]fs.DirEntry, 0, len(names))
	for _, c := range names {
		out = append(out, dirEntry{infoOf(c, n.children[c])})
	}
	return out, nil
}

// ---------------------------------------------------------------------------
// pipes

var pipeSeq int

func Pipe() (r *File, w *File, err error) {
	flt := simrt.Syscall("pipe", "", 0)
	if flt.Kind == simrt.FErr {
		return nil, nil, os.NewSyscallError("pipe", flt.Errno)
	}
	simrt.Big.Lock()
	defer simrt.Big.Unlock()
	return pipeLocked()
}

// PipeLocked creates a pipe without being a system call of the caller (simexec plumbing). Big held.
func PipeLocked() (r *File, w *File) {
	r, w, _ = pipeLocked()
	return
}

func pipeLocked() (r *File, w *File, err error) {
	pipeSeq++
	p := &pipe{readers: 1, writers: 1, id: pipeSeq}
	r = &File{name: "|0", apath: "pipe:r", kind: fPipeR, pipe: p}
	w = &File{name: "|1", apath: "pipe:w", kind: fPipeW, pipe: p}
	register(r)
	register(w)
	return r, w, nil
}

func (f *File) pipeRead(b []byte) (int, error) {
	g := simrt.CurG()
	flt := simrt.Syscall("piperead", "pipe", len(b))
	if flt.Kind == simrt.FErr {
		return 0, perr("read", f.name, flt.Errno)
	}
	p := f.pipe
	for {
		simrt.Big.Lock()
		if f.closed {
			simrt.Big.Unlock()
			return 0, perr("read", f.name, os.ErrClosed)
		}
		if len(p.buf) > 0 {
			n := copy(b, p.buf)
			p.buf = p.buf[n:]
			p.q.Broadcast()
			simrt.Big.Unlock()
			return n, nil
		}
		if p.writers == 0 {
			simrt.Big.Unlock()
			return 0, io.EOF
		}
		if len(b) == 0 {
			simrt.Big.Unlock()
			return 0, nil
		}
		if g == nil {
			p.q.WaitUnmanaged(time.Time{})
		} else {
			p.q.Wait(g, time.Time{})
		}
	}
}

func (f *File) pipeWrite(b []byte) (int, error) {
	g := simrt.CurG()
	flt := simrt.Syscall("pipewrite", "pipe", len(b))
	if flt.Kind == simrt.FErr {
		return 0, perr("write", f.name, flt.Errno)
	}
	p := f.pipe
	total := 0
	for {
		simrt.Big.Lock()
		if f.closed {
			simrt.Big.Unlock()
			return total, perr("write", f.name, os.ErrClosed)
		}
		if p.readers == 0 {
			simrt.Big.Unlock()
			return total, perr("write", f.name, syscall.EPIPE)
		}
		room := PipeCap - len(p.buf)
		if room > 0 {
			n := len(b)
			if n > room {
				n = room
			}
			p.buf = append(p.buf, b[:n]...)
			b = b[n:]
			total += n
			p.q.Broadcast()
		}
		if len(b) == 0 {
			simrt.Big.Unlock()
			return total, nil
		}
		if g == nil {
			p.q.WaitUnmanaged(time.Time{})
		} else {
			p.q.Wait(g, time.Time{})
		}
	}
}

// ---------------------------------------------------------------------------
// sinks: what processes print to their terminal, kept per process for debugging

func captureSink(which string, b []byte) {
	p := simrt.CurProc()
	if p == nil || which == "null" {
		return
	}
	key := "sink:" + which
	cur, _ := p.Data[key].([]byte)
	if len(cur) < 1<<16 {
		p.Data[key] = append(cur, b...)
	}
}

// SinkOutput returns what process p wrote to its stdout/stderr sink.
func SinkOutput(p *simrt.Proc, which string) string {
	b, _ := p.Data["sink:"+which].([]byte)
	return string(b)
}

// ---------------------------------------------------------------------------
// whole-file helpers: same system-call sequence as the standard library

func ReadFile(name string) ([]byte, error) {
	f, err := Open(name)
	if err != nil {
		return nil, err
	}
	defer f.Close()
	var out []byte
	buf := make([]byte, 32*1024)
	for {
		n, err := f.Read(buf)
		out = append(out, buf[:n]...)
		if err == io.EOF {
			return out, nil
		}
		if err != nil {
			return out, err
		}
		if n == len(buf) && len(buf) < 1<<22 {
			buf = make([]byte, 2*len(buf))
		}
	}
}

func WriteFile(name string, data []byte, perm fs.FileMode) error {
	f, err := OpenFile(name, O_WRONLY|O_CREATE|O_TRUNC, perm)
	if err != nil {
		return err
	}
	_, err = f.Write(data)
	if err1 := f.Close(); err1 != nil && err == nil {
		err = err1
	}
	return err
}

func CreateTemp(dir, pattern string) (*File, error) {
	if dir == "" {
		dir = TempDir()
	}
	prefix, suffix := pattern, ""
	if i := strings.LastIndexByte(pattern, '*'); i >= 0 {
		prefix, suffix = pattern[:i], pattern[i+1:]
	}
	fsys := CurFS()
	for try := 0; try < 10000; try++ {
		simrt.Big.Lock()
		fsys.tmpSeq++
		seq := fsys.tmpSeq
		simrt.Big.Unlock()
		name := path.Join(dir, prefix+strconv.Itoa(100000000+seq*7919)+suffix)
		f, err := OpenFile(name, O_RDWR|O_CREATE|O_EXCL, 0o600)
		if errors.Is(err, fs.ErrExist) {
			continue
		}
		return f, err
	}
	return nil, perr("createtemp", dir+"/"+pattern, fs.ErrExist)
}

func MkdirTemp(dir, pattern string) (string, error) {
	if dir == "" {
		dir = TempDir()
	}
	prefix, suffix := pattern, ""
	if i := strings.LastIndexByte(pattern, '*'); i >= 0 {
		prefix, suffix = pattern[:i], pattern[i+1:]
	}
	fsys := CurFS()
	for try := 0; try < 10000; try++ {
		simrt.Big.Lock()
		fsys.tmpSeq++
		seq := fsys.tmpSeq
		simrt.Big.Unlock()
		name := path.Join(dir, prefix+strconv.Itoa(100000000+seq*7919)+suffix)
		err := Mkdir(name, 0o700)
		if errors.Is(err, fs.ErrExist) {
			continue
		}
		if err != nil {
			return "", err
		}
		return name, nil
	}
	return "", perr("mkdirtemp", dir+"/"+pattern, fs.ErrExist)
}
