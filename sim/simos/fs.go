// Package simos replaces "os" in the instrumented copy of the repository: one
// in-memory POSIX-like tree per simulated world, per-process environment,
// cwd and descriptor table, blocking pipes, and a fault/kill/scheduling point
// at every simulated system call.
package simos

import (
	"io/fs"
	"path"
	"sort"
	"strings"
	"syscall"
	"time"

	"github.com/ErdemOzgen/blackdagger/internal/verifsim/simrt"
)

type kind int

const (
	kFile kind = iota
	kDir
	kSock
)

type inode struct {
	kind     kind
	data     []byte
	mode     fs.FileMode
	mtime    time.Time
	children map[string]*inode
	ino      uint64
}

// FsEvent is reported to watchers (simfsnotify) on every mutation.
type FsEvent struct {
	Op   string // "create", "write", "remove", "rename", "chmod"
	Path string
}

// FS is one simulated file system. All access under simrt.Big.
type FS struct {
	root     *inode
	nextIno  uint64
	tmpSeq   int
	Watchers []func(ev FsEvent)
	// Sockets bound in this file system's namespace (owned by simnet).
	Data map[string]any
	// MutLog, when non-nil, receives every mutating operation (witness for "nothing was written").
	MutLog func(op, path string)
}

func NewFS() *FS {
	f := &FS{Data: map[string]any{}}
	f.root = f.newInode(kDir, 0o755|fs.ModeDir)
	for _, d := range []string{"/tmp", "/root", "/sim"} {
		f.root.children[d[1:]] = f.newInode(kDir, 0o755|fs.ModeDir)
	}
	return f
}

var defaultFS = NewFS()

// defaultProcEnv is the environment used outside a simulation.
var defaultEnv = struct {
	env   map[string]string
	order []string
	cwd   string
}{env: map[string]string{"HOME": "/root"}, order: []string{"HOME"}, cwd: "/"}

func (f *FS) newInode(k kind, mode fs.FileMode) *inode {
	f.nextIno++
	n := &inode{kind: k, mode: mode, mtime: time.Now(), ino: f.nextIno}
	if k == kDir {
		n.children = map[string]*inode{}
	}
	return n
}

// CurFS returns the file system of the caller's world.
func CurFS() *FS {
	if w := simrt.Current(); w != nil {
		return WorldFS(w)
	}
	return defaultFS
}

// WorldFS returns (creating on first use) the file system of w. Big must not be required: it is only called by the token holder.
func WorldFS(w *simrt.World) *FS {
	if v, ok := w.Data["fs"]; ok {
		return v.(*FS)
	}
	f := NewFS()
	w.Data["fs"] = f
	return f
}

func abs(p string) string {
	if p == "" {
		return ""
	}
	if !strings.HasPrefix(p, "/") {
		p = Cwd() + "/" + p
	}
	return path.Clean(p)
}

// Cwd returns the caller's working directory.
func Cwd() string {
	if p := simrt.CurProc(); p != nil {
		if p.Cwd == "" {
			return "/"
		}
		return p.Cwd
	}
	return defaultEnv.cwd
}

// lookup resolves an absolute clean path. Big held.
func (f *FS) lookup(p string) (*inode, syscall.Errno) {
	if p == "" {
		return nil, syscall.ENOENT
	}
	n := f.root
	if p == "/" {
		return n, 0
	}
	for _, part := range strings.Split(p[1:], "/") {
		if n.kind != kDir {
			return nil, syscall.ENOTDIR
		}
		c, ok := n.children[part]
		if !ok {
			return nil, syscall.ENOENT
		}
		n = c
	}
	return n, 0
}

func (f *FS) parent(p string) (*inode, string, syscall.Errno) {
	dir, base := path.Split(p)
	if dir != "/" {
		dir = strings.TrimSuffix(dir, "/")
	}
	d, e := f.lookup(dir)
	if e != 0 {
		return nil, "", e
	}
	if d.kind != kDir {
		return nil, "", syscall.ENOTDIR
	}
	return d, base, 0
}

func (f *FS) notify(op, p string) {
	if f.MutLog != nil {
		f.MutLog(op, p)
	}
	for _, w := range f.Watchers {
		w(FsEvent{Op: op, Path: p})
	}
}

// ---------------------------------------------------------------------------
// direct (non-yielding) access for harness set-up and oracles. These are not
// system calls of any simulated process: no fault, no latency, no scheduling.

// PutFile creates or replaces a file (parents are created).
func (f *FS) PutFile(p string, data []byte, mode fs.FileMode) {
	simrt.Big.Lock()
	defer simrt.Big.Unlock()
	f.mkdirAllLocked(path.Dir(p))
	d, base, _ := f.parent(p)
	n, ok := d.children[base]
	op := "write"
	if !ok {
		n = f.newInode(kFile, mode)
		d.children[base] = n
		d.mtime = time.Now()
		op = "create"
	}
	n.data = append([]byte{}, data...)
	n.mtime = time.Now()
	f.notify(op, p)
}

func (f *FS) mkdirAllLocked(p string) {
	if p == "/" || p == "." || p == "" {
		return
	}
	if n, e := f.lookup(p); e == 0 && n.kind == kDir {
		return
	}
	f.mkdirAllLocked(path.Dir(p))
	d, base, e := f.parent(p)
	if e != 0 {
		return
	}
	if _, ok := d.children[base]; !ok {
		d.children[base] = f.newInode(kDir, 0o755|fs.ModeDir)
		d.mtime = time.Now()
	}
}

// MkdirAllDirect creates a directory chain without being a system call.
func (f *FS) MkdirAllDirect(p string) {
	simrt.Big.Lock()
	defer simrt.Big.Unlock()
	f.mkdirAllLocked(p)
}

// GetFile returns a copy of the file's bytes.
func (f *FS) GetFile(p string) ([]byte, bool) {
	simrt.Big.Lock()
	defer simrt.Big.Unlock()
	n, e := f.lookup(p)
	if e != 0 || n.kind != kFile {
		return nil, false
	}
	return append([]byte{}, n.data...), true
}

// Exists reports whether the path exists.
func (f *FS) Exists(p string) bool {
	simrt.Big.Lock()
	defer simrt.Big.Unlock()
	_, e := f.lookup(p)
	return e == 0
}

// SetMtime overrides a file's modification time (harness: age a history file).
func (f *FS) SetMtime(p string, t time.Time) {
	simrt.Big.Lock()
	defer simrt.Big.Unlock()
	if n, e := f.lookup(p); e == 0 {
		n.mtime = t
	}
}

// RemoveDirect unlinks a path without being a system call.
func (f *FS) RemoveDirect(p string) {
	simrt.Big.Lock()
	defer simrt.Big.Unlock()
	d, base, e := f.parent(p)
	if e != 0 {
		return
	}
	if _, ok := d.children[base]; ok {
		delete(d.children, base)
		f.notify("remove", p)
	}
}

// Dump returns path -> contents for every regular file under prefix (directories
// are listed with a trailing "/" and nil contents; sockets with "=sock").
func (f *FS) Dump(prefix string) map[string]string {
	simrt.Big.Lock()
	defer simrt.Big.Unlock()
	out := map[string]string{}
	n, e := f.lookup(path.Clean(prefix))
	if e != 0 {
		return out
	}
	var walk func(p string, n *inode)
	walk = func(p string, n *inode) {
		switch n.kind {
		case kFile:
			out[p] = string(n.data)
		case kSock:
			out[p+"=sock"] = ""
		case kDir:
			if p != path.Clean(prefix) {
				out[p+"/"] = ""
			}
			for name, c := range n.children {
				walk(path.Join(p, name), c)
			}
		}
	}
	walk(path.Clean(prefix), n)
	return out
}

// List returns the sorted names in a directory (nil if missing).
func (f *FS) List(dir string) []string {
	simrt.Big.Lock()
	defer simrt.Big.Unlock()
	n, e := f.lookup(path.Clean(dir))
	if e != 0 || n.kind != kDir {
		return nil
	}
	var out []string
	for name := range n.children {
		out = append(out, name)
	}
	sort.Strings(out)
	return out
}

// ---------------------------------------------------------------------------

type fileInfo struct {
	name  string
	size  int64
	mode  fs.FileMode
	mtime time.Time
	ino   uint64
}

func (fi *fileInfo) Name() string       { return fi.name }
func (fi *fileInfo) Size() int64        { return fi.size }
func (fi *fileInfo) Mode() fs.FileMode  { return fi.mode }
func (fi *fileInfo) ModTime() time.Time { return fi.mtime }
func (fi *fileInfo) IsDir() bool        { return fi.mode.IsDir() }
func (fi *fileInfo) Sys() any           { return fi.ino }

func infoOf(name string, n *inode) *fileInfo {
	fi := &fileInfo{name: name, mode: n.mode, mtime: n.mtime, ino: n.ino}
	switch n.kind {
	case kFile:
		fi.size = int64(len(n.data))
	case kDir:
		fi.size = 4096
		fi.mode |= fs.ModeDir
	case kSock:
		fi.mode |= fs.ModeSocket
	}
	return fi
}

type dirEntry struct{ fi *fileInfo }

func (d dirEntry) Name() string               { return d.fi.name }
func (d dirEntry) IsDir() bool                { return d.fi.IsDir() }
func (d dirEntry) Type() fs.FileMode          { return d.fi.mode.Type() }
func (d dirEntry) Info() (fs.FileInfo, error) { return d.fi, nil }
func (d dirEntry) String() string             { return fs.FormatDirEntry(d) }

func perr(op, p string, e error) error { return &fs.PathError{Op: op, Path: p, Err: e} }

// BindSocket creates a socket node (used by simnet). Big held by caller.
func (f *FS) BindSocketLocked(p string) syscall.Errno {
	d, base, e := f.parent(p)
	if e != 0 {
		return e
	}
	if _, ok := d.children[base]; ok {
		return syscall.EADDRINUSE
	}
	d.children[base] = f.newInode(kSock, 0o755)
	d.mtime = time.Now()
	f.notify("create", p)
	return 0
}

// NodeKindLocked reports what exists at p: "", "file", "dir", "sock". Big held.
func (f *FS) NodeKindLocked(p string) string {
	n, e := f.lookup(p)
	if e != 0 {
		return ""
	}
	switch n.kind {
	case kDir:
		return "dir"
	case kSock:
		return "sock"
	}
	return "file"
}

// UnlinkLocked removes a non-directory node. Big held.
func (f *FS) UnlinkLocked(p string) {
	d, base, e := f.parent(p)
	if e != 0 {
		return
	}
	if _, ok := d.children[base]; ok {
		delete(d.children, base)
		d.mtime = time.Now()
		f.notify("remove", p)
	}
}
