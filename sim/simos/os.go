package simos

import (
	"errors"
	"io/fs"
	"os"
	"path"
	"strings"
	"syscall"
	"time"

	"github.com/ErdemOzgen/blackdagger/internal/verifsim/simrt"
)

type (
	FileInfo     = fs.FileInfo
	FileMode     = fs.FileMode
	DirEntry     = fs.DirEntry
	PathError    = fs.PathError
	Signal       = os.Signal
	SyscallError = os.SyscallError
	LinkError    = os.LinkError
)

var (
	ErrInvalid          = fs.ErrInvalid
	ErrPermission       = fs.ErrPermission
	ErrExist            = fs.ErrExist
	ErrNotExist         = fs.ErrNotExist
	ErrClosed           = fs.ErrClosed
	ErrNoDeadline       = os.ErrNoDeadline
	ErrDeadlineExceeded = os.ErrDeadlineExceeded
	ErrProcessDone      = os.ErrProcessDone

	Interrupt Signal = os.Interrupt
	Kill      Signal = os.Kill

	Args = []string{"/sim/bin/blackdagger"}
)

const (
	ModeDir        = fs.ModeDir
	ModeAppend     = fs.ModeAppend
	ModeExclusive  = fs.ModeExclusive
	ModeTemporary  = fs.ModeTemporary
	ModeSymlink    = fs.ModeSymlink
	ModeDevice     = fs.ModeDevice
	ModeNamedPipe  = fs.ModeNamedPipe
	ModeSocket     = fs.ModeSocket
	ModeSetuid     = fs.ModeSetuid
	ModeSetgid     = fs.ModeSetgid
	ModeCharDevice = fs.ModeCharDevice
	ModeSticky     = fs.ModeSticky
	ModeIrregular  = fs.ModeIrregular
	ModeType       = fs.ModeType
	ModePerm       = fs.ModePerm

	PathSeparator     = '/'
	PathListSeparator = ':'
	SEEK_SET          = 0
	SEEK_CUR          = 1
	SEEK_END          = 2
)

func IsNotExist(err error) bool   { return os.IsNotExist(err) }
func IsExist(err error) bool      { return os.IsExist(err) }
func IsPermission(err error) bool { return os.IsPermission(err) }
func IsTimeout(err error) bool    { return os.IsTimeout(err) }
func IsPathSeparator(c uint8) bool { return c == '/' }
func NewSyscallError(s string, err error) error { return os.NewSyscallError(s, err) }

func Stat(name string) (fs.FileInfo, error) {
	ap := abs(name)
	flt := simrt.Syscall("stat", ap, 0)
	if flt.Kind == simrt.FErr {
		return nil, perr("stat", name, flt.Errno)
	}
	f := CurFS()
	simrt.Big.Lock()
	defer simrt.Big.Unlock()
	n, e := f.lookup(ap)
	if e != 0 {
		return nil, perr("stat", name, e)
	}
	return infoOf(path.Base(ap), n), nil
}

func Lstat(name string) (fs.FileInfo, error) { return Stat(name) }

func SameFile(a, b fs.FileInfo) bool {
	x, ok1 := a.(*fileInfo)
	y, ok2 := b.(*fileInfo)
	return ok1 && ok2 && x.ino == y.ino
}

func Mkdir(name string, perm fs.FileMode) error {
	ap := abs(name)
	flt := simrt.Syscall("mkdir", ap, 0)
	if flt.Kind == simrt.FErr {
		return perr("mkdir", name, flt.Errno)
	}
	f := CurFS()
	simrt.Big.Lock()
	d, base, e := f.parent(ap)
	if e != 0 {
		simrt.Big.Unlock()
		return perr("mkdir", name, e)
	}
	if _, ok := d.children[base]; ok {
		simrt.Big.Unlock()
		return perr("mkdir", name, syscall.EEXIST)
	}
	d.children[base] = f.newInode(kDir, perm&fs.ModePerm|fs.ModeDir)
	d.mtime = time.Now()
	f.notify("create", ap)
	simrt.Big.Unlock()
	simrt.AfterSyscall(flt, "mkdir", ap)
	return nil
}

// MkdirAll follows the standard library: stat first, then create missing
// components parent-first (each a system call).
func MkdirAll(p string, perm fs.FileMode) error {
	dir, err := Stat(p)
	if err == nil {
		if dir.IsDir() {
			return nil
		}
		return perr("mkdir", p, syscall.ENOTDIR)
	}
	ap := abs(p)
	if parent := path.Dir(ap); parent != ap && parent != "/" {
		if err := MkdirAll(parent, perm); err != nil {
			return err
		}
	}
	err = Mkdir(ap, perm)
	if err != nil {
		dir, err1 := Lstat(ap)
		if err1 == nil && dir.IsDir() {
			return nil
		}
		return err
	}
	return nil
}

func Remove(name string) error {
	ap := abs(name)
	flt := simrt.Syscall("unlink", ap, 0)
	if flt.Kind == simrt.FErr {
		return perr("remove", name, flt.Errno)
	}
	f := CurFS()
	simrt.Big.Lock()
	d, base, e := f.parent(ap)
	if e != 0 {
		simrt.Big.Unlock()
		return perr("remove", name, e)
	}
	n, ok := d.children[base]
	if !ok {
		simrt.Big.Unlock()
		return perr("remove", name, syscall.ENOENT)
	}
	if n.kind == kDir && len(n.children) > 0 {
		simrt.Big.Unlock()
		return perr("remove", name, syscall.ENOTEMPTY)
	}
	delete(d.children, base)
	d.mtime = time.Now()
	f.notify("remove", ap)
	simrt.Big.Unlock()
	simrt.AfterSyscall(flt, "unlink", ap)
	return nil
}

func RemoveAll(name string) error {
	if name == "" {
		return nil
	}
	ap := abs(name)
	flt := simrt.Syscall("rmtree", ap, 0)
	if flt.Kind == simrt.FErr {
		return perr("unlinkat", name, flt.Errno)
	}
	f := CurFS()
	simrt.Big.Lock()
	d, base, e := f.parent(ap)
	if e == 0 {
		if _, ok := d.children[base]; ok {
			delete(d.children, base)
			d.mtime = time.Now()
			f.notify("remove", ap)
		}
	}
	simrt.Big.Unlock()
	simrt.AfterSyscall(flt, "rmtree", ap)
	if e == syscall.ENOTDIR {
		return perr("unlinkat", name, e) // a component of the path is not a directory
	}
	return nil
}

func Rename(oldpath, newpath string) error {
	ao, an := abs(oldpath), abs(newpath)
	flt := simrt.Syscall("rename", ao+" -> "+an, 0)
	lerr := func(e error) error { return &os.LinkError{Op: "rename", Old: oldpath, New: newpath, Err: e} }
	if flt.Kind == simrt.FErr {
		return lerr(flt.Errno)
	}
	f := CurFS()
	simrt.Big.Lock()
	od, ob, e := f.parent(ao)
	if e != 0 {
		simrt.Big.Unlock()
		return lerr(e)
	}
	n, ok := od.children[ob]
	if !ok {
		simrt.Big.Unlock()
		return lerr(syscall.ENOENT)
	}
	nd, nb, e := f.parent(an)
	if e != 0 {
		simrt.Big.Unlock()
		return lerr(e)
	}
	if t, ok := nd.children[nb]; ok {
		switch {
		case t.kind == kDir:
			// os.Rename checks this up front on unix: "rename onto a directory" is reported as EEXIST
			simrt.Big.Unlock()
			return lerr(syscall.EEXIST)
		case t == n:
			simrt.Big.Unlock()
			return nil
		case t.kind == kDir && n.kind != kDir:
			simrt.Big.Unlock()
			return lerr(syscall.EISDIR)
		case t.kind != kDir && n.kind == kDir:
			simrt.Big.Unlock()
			return lerr(syscall.ENOTDIR)
		case t.kind == kDir && len(t.children) > 0:
			simrt.Big.Unlock()
			return lerr(syscall.ENOTEMPTY)
		}
	}
	if n.kind == kDir && (an == ao || strings.HasPrefix(an, ao+"/")) {
		simrt.Big.Unlock()
		return lerr(syscall.EINVAL)
	}
	delete(od.children, ob)
	nd.children[nb] = n
	now := time.Now()
	od.mtime, nd.mtime = now, now
	f.notify("rename", ao)
	f.notify("create", an)
	simrt.Big.Unlock()
	simrt.AfterSyscall(flt, "rename", ao+" -> "+an)
	return nil
}

func Truncate(name string, size int64) error {
	ap := abs(name)
	flt := simrt.Syscall("truncate", ap, 0)
	if flt.Kind == simrt.FErr {
		return perr("truncate", name, flt.Errno)
	}
	f := CurFS()
	simrt.Big.Lock()
	n, e := f.lookup(ap)
	if e != 0 {
		simrt.Big.Unlock()
		return perr("truncate", name, e)
	}
	if n.kind != kFile {
		simrt.Big.Unlock()
		return perr("truncate", name, syscall.EISDIR)
	}
	truncLocked(n, size)
	f.notify("write", ap)
	simrt.Big.Unlock()
	simrt.AfterSyscall(flt, "truncate", ap)
	return nil
}

func Chmod(name string, mode fs.FileMode) error {
	ap := abs(name)
	simrt.Syscall("chmod", ap, 0)
	f := CurFS()
	simrt.Big.Lock()
	defer simrt.Big.Unlock()
	n, e := f.lookup(ap)
	if e != 0 {
		return perr("chmod", name, e)
	}
	n.mode = n.mode&^fs.ModePerm | mode&fs.ModePerm
	f.notify("chmod", ap)
	return nil
}

func Chtimes(name string, atime, mtime time.Time) error {
	ap := abs(name)
	simrt.Syscall("utimes", ap, 0)
	f := CurFS()
	simrt.Big.Lock()
	defer simrt.Big.Unlock()
	n, e := f.lookup(ap)
	if e != 0 {
		return perr("chtimes", name, e)
	}
	if !mtime.IsZero() {
		n.mtime = mtime
	}
	return nil
}

func Chown(name string, uid, gid int) error  { return nil }
func Lchown(name string, uid, gid int) error { return nil }
func Link(oldname, newname string) error {
	return &os.LinkError{Op: "link", Old: oldname, New: newname, Err: syscall.EPERM}
}
func Symlink(oldname, newname string) error {
	return &os.LinkError{Op: "symlink", Old: oldname, New: newname, Err: syscall.EPERM}
}
func Readlink(name string) (string, error) { return "", perr("readlink", name, syscall.EINVAL) }

func DirFS(dir string) fs.FS { return dirFS(dir) }

type dirFS string

func (d dirFS) Open(name string) (fs.File, error) {
	f, err := Open(path.Join(string(d), name))
	if err != nil {
		return nil, err
	}
	return fsFile{f}, nil
}

type fsFile struct{ *File }

func (f fsFile) Stat() (fs.FileInfo, error) { return f.File.Stat() }

// ---------------------------------------------------------------------------
// environment (per simulated process; never a scheduling point)

func Getenv(key string) string {
	v, _ := LookupEnv(key)
	return v
}

func LookupEnv(key string) (string, bool) {
	if p := simrt.CurProc(); p != nil {
		v, ok := p.Env[key]
		return v, ok
	}
	v, ok := defaultEnv.env[key]
	return v, ok
}

func Setenv(key, value string) error {
	if key == "" || strings.ContainsAny(key, "=\x00") || strings.ContainsRune(value, 0) {
		return os.NewSyscallError("setenv", syscall.EINVAL)
	}
	if p := simrt.CurProc(); p != nil {
		p.Setenv(key, value)
		return nil
	}
	if _, ok := defaultEnv.env[key]; !ok {
		defaultEnv.order = append(defaultEnv.order, key)
	}
	defaultEnv.env[key] = value
	return nil
}

func Unsetenv(key string) error {
	if p := simrt.CurProc(); p != nil {
		p.Unsetenv(key)
		return nil
	}
	delete(defaultEnv.env, key)
	return nil
}

func Clearenv() {
	if p := simrt.CurProc(); p != nil {
		p.Env = map[string]string{}
		p.EnvOrder = nil
		return
	}
	defaultEnv.env = map[string]string{}
	defaultEnv.order = nil
}

func Environ() []string {
	if p := simrt.CurProc(); p != nil {
		return p.Environ()
	}
	var out []string
	for _, k := range defaultEnv.order {
		if v, ok := defaultEnv.env[k]; ok {
			out = append(out, k+"="+v)
		}
	}
	return out
}

func ExpandEnv(s string) string { return os.Expand(s, Getenv) }

func Expand(s string, mapping func(string) string) string { return os.Expand(s, mapping) }

// ---------------------------------------------------------------------------
// process

func Getpid() int {
	if p := simrt.CurProc(); p != nil {
		return p.Pid
	}
	return os.Getpid()
}

func Getppid() int {
	if p := simrt.CurProc(); p != nil {
		return p.PPid
	}
	return os.Getppid()
}

func Getuid() int  { return 0 }
func Geteuid() int { return 0 }
func Getgid() int  { return 0 }
func Getegid() int { return 0 }

func Hostname() (string, error) { return "simhost", nil }

func Getwd() (string, error) { return Cwd(), nil }

func Chdir(dir string) error {
	ap := abs(dir)
	f := CurFS()
	simrt.Big.Lock()
	n, e := f.lookup(ap)
	simrt.Big.Unlock()
	if e != 0 {
		return perr("chdir", dir, e)
	}
	if n.kind != kDir {
		return perr("chdir", dir, syscall.ENOTDIR)
	}
	if p := simrt.CurProc(); p != nil {
		p.Cwd = ap
	} else {
		defaultEnv.cwd = ap
	}
	return nil
}

func UserHomeDir() (string, error) {
	if v := Getenv("HOME"); v != "" {
		return v, nil
	}
	return "", errors.New("$HOME is not defined")
}

func UserConfigDir() (string, error) {
	if v := Getenv("XDG_CONFIG_HOME"); v != "" {
		return v, nil
	}
	h, err := UserHomeDir()
	if err != nil {
		return "", err
	}
	return h + "/.config", nil
}

func UserCacheDir() (string, error) {
	h, err := UserHomeDir()
	if err != nil {
		return "", err
	}
	return h + "/.cache", nil
}

func TempDir() string {
	if v := Getenv("TMPDIR"); v != "" {
		return v
	}
	return "/tmp"
}

// ExecutablePath is what Executable reports.
var ExecutablePath = "/sim/bin/blackdagger"

func Executable() (string, error) { return ExecutablePath, nil }

// Exit terminates the calling simulated process (the real one outside a simulation).
func Exit(code int) {
	g := simrt.CurG()
	if g == nil {
		os.Exit(code)
	}
	g.W.ExitProc(g.Proc, code)
}

// Process mirrors *os.Process as far as the repository uses it.
type Process struct {
	Pid int
	// Impl is owned by simexec.
	Impl any
}

var (
	ProcessKill   func(p *Process) error
	ProcessSignal func(p *Process, sig Signal) error
	ProcessWait   func(p *Process) (*ProcessState, error)
)

func (p *Process) Kill() error {
	if ProcessKill == nil {
		return errors.New("simos: no process support")
	}
	return ProcessKill(p)
}

func (p *Process) Signal(sig Signal) error {
	if ProcessSignal == nil {
		return errors.New("simos: no process support")
	}
	return ProcessSignal(p, sig)
}

func (p *Process) Wait() (*ProcessState, error) {
	if ProcessWait == nil {
		return nil, errors.New("simos: no process support")
	}
	return ProcessWait(p)
}

func (p *Process) Release() error { return nil }

func FindProcess(pid int) (*Process, error) { return &Process{Pid: pid}, nil }

// ProcessState mirrors *os.ProcessState.
type ProcessState struct {
	Pid_     int
	Code     int
	Signal   string // non-empty if terminated by a signal
	Finished bool
}

func (s *ProcessState) ExitCode() int {
	if s == nil {
		return -1
	}
	if s.Signal != "" {
		return -1
	}
	return s.Code
}
func (s *ProcessState) Exited() bool  { return s != nil && s.Signal == "" }
func (s *ProcessState) Success() bool { return s != nil && s.Signal == "" && s.Code == 0 }
func (s *ProcessState) Pid() int      { return s.Pid_ }
func (s *ProcessState) Sys() any      { return nil }
func (s *ProcessState) SysUsage() any { return nil }
func (s *ProcessState) SystemTime() time.Duration { return 0 }
func (s *ProcessState) UserTime() time.Duration   { return 0 }
func (s *ProcessState) String() string {
	if s == nil {
		return "<nil>"
	}
	if s.Signal != "" {
		return "signal: " + s.Signal
	}
	return "exit status " + itoa(s.Code)
}

func itoa(i int) string {
	if i == 0 {
		return "0"
	}
	neg := i < 0
	if neg {
		i = -i
	}
	var b [20]byte
	p := len(b)
	for i > 0 {
		p--
		b[p] = byte('0' + i%10)
		i /= 10
	}
	if neg {
		p--
		b[p] = '-'
	}
	return string(b[p:])
}
