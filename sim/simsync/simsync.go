// Package simsync replaces "sync" in the instrumented copy of the repository.
// Mutex, RWMutex, WaitGroup and Once are known to the simulation scheduler:
// acquiring a lock is a (seeded) scheduling point and a blocked waiter is
// durably blocked for synctest. Outside a simulation they behave like
// ordinary blocking primitives.
package simsync

import (
	"sync"
	"time"

	"github.com/ErdemOzgen/blackdagger/internal/verifsim/simrt"
)

type Locker = sync.Locker
type Pool = sync.Pool
type Cond = sync.Cond

func NewCond(l Locker) *Cond { return sync.NewCond(l) }

func OnceFunc(f func()) func() {
	var o Once
	return func() { o.Do(f) }
}

func OnceValue[T any](f func() T) func() T {
	var o Once
	var v T
	return func() T { o.Do(func() { v = f() }); return v }
}

// ---------------------------------------------------------------------------

type Mutex struct {
	locked bool
	holder *simrt.G
	q      simrt.WaitQ
}

func lockYield(g *simrt.G, kind string) {
	w := g.W
	if w.Cfg.LockYieldNum > 0 && w.Tape.Chance(simrt.SSched, w.Cfg.LockYieldNum, 100) {
		w.Stats.LockYields++
		simrt.YieldOp(kind, "")
	}
}

func (m *Mutex) Lock() {
	g := simrt.CurG()
	if g == nil {
		simrt.Big.Lock()
		for m.locked {
			m.q.WaitUnmanaged(time.Time{})
			simrt.Big.Lock()
		}
		m.locked = true
		simrt.Big.Unlock()
		return
	}
	simrt.CheckDead()
	lockYield(g, "lock")
	simrt.Big.Lock()
	for m.locked {
		m.q.Wait(g, time.Time{})
		simrt.Big.Lock()
	}
	m.locked = true
	m.holder = g
	hold(g, m)
	simrt.Big.Unlock()
}

func (m *Mutex) TryLock() bool {
	g := simrt.CurG()
	simrt.Big.Lock()
	defer simrt.Big.Unlock()
	if m.locked {
		return false
	}
	m.locked = true
	m.holder = g
	if g != nil {
		hold(g, m)
	}
	return true
}

func (m *Mutex) Unlock() {
	simrt.Big.Lock()
	if !m.locked {
		simrt.Big.Unlock()
		panic("simsync: unlock of unlocked mutex")
	}
	if m.holder != nil {
		delete(m.holder.Held, m)
	}
	m.locked = false
	m.holder = nil
	m.q.Broadcast()
	simrt.Big.Unlock()
}

// ForceRelease implements simrt.Releaser: the holder was killed.
func (m *Mutex) ForceRelease(g *simrt.G) {
	simrt.Big.Lock()
	if m.locked && m.holder == g {
		m.locked = false
		m.holder = nil
		m.q.Broadcast()
	}
	simrt.Big.Unlock()
}

func hold(g *simrt.G, l simrt.Releaser) {
	if g.Held == nil {
		g.Held = map[simrt.Releaser]struct{}{}
	}
	g.Held[l] = struct{}{}
}

// ---------------------------------------------------------------------------

// RWMutex has Go's writer preference: once a writer waits, new readers block.
type RWMutex struct {
	writer   bool
	wholder  *simrt.G
	readers  int
	rholders map[*simrt.G]int
	wwait    int
	q        simrt.WaitQ
}

type rwRead struct{ m *RWMutex }

func (r rwRead) ForceRelease(g *simrt.G) {
	m := r.m
	simrt.Big.Lock()
	if n := m.rholders[g]; n > 0 {
		m.readers -= n
		delete(m.rholders, g)
		m.q.Broadcast()
	}
	simrt.Big.Unlock()
}

func (m *RWMutex) ForceRelease(g *simrt.G) {
	simrt.Big.Lock()
	if m.writer && m.wholder == g {
		m.writer = false
		m.wholder = nil
		m.q.Broadcast()
	}
	simrt.Big.Unlock()
}

func (m *RWMutex) Lock() {
	g := simrt.CurG()
	if g == nil {
		simrt.Big.Lock()
		m.wwait++
		for m.writer || m.readers > 0 {
			m.q.WaitUnmanaged(time.Time{})
			simrt.Big.Lock()
		}
		m.wwait--
		m.writer = true
		simrt.Big.Unlock()
		return
	}
	simrt.CheckDead()
	lockYield(g, "lock")
	simrt.Big.Lock()
	m.wwait++
	waiting := true
	defer func() {
		if waiting { // killed while waiting (Goexit): do not leave a phantom writer behind
			simrt.Big.Lock()
			m.wwait--
			m.q.Broadcast()
			simrt.Big.Unlock()
		}
	}()
	for m.writer || m.readers > 0 {
		m.q.Wait(g, time.Time{})
		simrt.Big.Lock()
	}
	m.wwait--
	waiting = false
	m.writer = true
	m.wholder = g
	hold(g, m)
	simrt.Big.Unlock()
}

func (m *RWMutex) TryLock() bool {
	g := simrt.CurG()
	simrt.Big.Lock()
	defer simrt.Big.Unlock()
	if m.writer || m.readers > 0 {
		return false
	}
	m.writer = true
	m.wholder = g
	if g != nil {
		hold(g, m)
	}
	return true
}

func (m *RWMutex) Unlock() {
	simrt.Big.Lock()
	if !m.writer {
		simrt.Big.Unlock()
		panic("simsync: Unlock of unlocked RWMutex")
	}
	if m.wholder != nil {
		delete(m.wholder.Held, m)
	}
	m.writer = false
	m.wholder = nil
	m.q.Broadcast()
	simrt.Big.Unlock()
}

func (m *RWMutex) RLock() {
	g := simrt.CurG()
	if g == nil {
		simrt.Big.Lock()
		for m.writer || m.wwait > 0 {
			m.q.WaitUnmanaged(time.Time{})
			simrt.Big.Lock()
		}
		m.readers++
		simrt.Big.Unlock()
		return
	}
	simrt.CheckDead()
	lockYield(g, "rlock")
	simrt.Big.Lock()
	for m.writer || m.wwait > 0 {
		m.q.Wait(g, time.Time{})
		simrt.Big.Lock()
	}
	m.readers++
	if m.rholders == nil {
		m.rholders = map[*simrt.G]int{}
	}
	m.rholders[g]++
	hold(g, rwRead{m})
	simrt.Big.Unlock()
}

func (m *RWMutex) TryRLock() bool {
	g := simrt.CurG()
	simrt.Big.Lock()
	defer simrt.Big.Unlock()
	if m.writer || m.wwait > 0 {
		return false
	}
	m.readers++
	if g != nil {
		if m.rholders == nil {
			m.rholders = map[*simrt.G]int{}
		}
		m.rholders[g]++
		hold(g, rwRead{m})
	}
	return true
}

func (m *RWMutex) RUnlock() {
	g := simrt.CurG()
	simrt.Big.Lock()
	if m.readers <= 0 {
		simrt.Big.Unlock()
		panic("simsync: RUnlock of unlocked RWMutex")
	}
	m.readers--
	if g != nil && m.rholders[g] > 0 {
		m.rholders[g]--
		if m.rholders[g] == 0 {
			delete(m.rholders, g)
			delete(g.Held, rwRead{m})
		}
	}
	if m.readers == 0 {
		m.q.Broadcast()
	}
	simrt.Big.Unlock()
}

func (m *RWMutex) RLocker() Locker { return (*rlocker)(m) }

type rlocker RWMutex

func (r *rlocker) Lock()   { (*RWMutex)(r).RLock() }
func (r *rlocker) Unlock() { (*RWMutex)(r).RUnlock() }

// ---------------------------------------------------------------------------

type WaitGroup struct {
	n int
	q simrt.WaitQ
}

func (wg *WaitGroup) Add(delta int) {
	simrt.Big.Lock()
	wg.n += delta
	if wg.n < 0 {
		simrt.Big.Unlock()
		panic("simsync: negative WaitGroup counter")
	}
	if wg.n == 0 {
		wg.q.Broadcast()
	}
	simrt.Big.Unlock()
}

func (wg *WaitGroup) Done() { wg.Add(-1) }

func (wg *WaitGroup) Go(f func()) {
	wg.Add(1)
	simrt.Go(func() {
		defer wg.Done()
		f()
	})
}

func (wg *WaitGroup) Wait() {
	g := simrt.CurG()
	if g == nil {
		simrt.Big.Lock()
		for wg.n > 0 {
			wg.q.WaitUnmanaged(time.Time{})
			simrt.Big.Lock()
		}
		simrt.Big.Unlock()
		return
	}
	simrt.YieldOp("wgwait", "")
	simrt.Big.Lock()
	for wg.n > 0 {
		wg.q.Wait(g, time.Time{})
		simrt.CheckDead()
		simrt.Big.Lock()
	}
	simrt.Big.Unlock()
}

// ---------------------------------------------------------------------------

type Once struct {
	m    Mutex
	done bool
}

func (o *Once) Do(f func()) {
	if o.done {
		return
	}
	o.m.Lock()
	defer o.m.Unlock()
	if !o.done {
		defer func() { o.done = true }()
		f()
	}
}

// ---------------------------------------------------------------------------

// Map is a deterministic replacement for sync.Map: Range visits keys in
// insertion order (sync.Map's order depends on a per-process hash seed, which
// would break replay). Like an uncontended lock, each operation is a scheduling
// point with the run's lock-yield probability: two goroutines that use the map
// without further synchronisation (a cache lookup racing an invalidation) can
// be interleaved between any two of its operations, as real threads can.
func mapYield() {
	if g := simrt.CurG(); g != nil {
		lockYield(g, "mapop")
	}
}

type Map struct {
	mu   sync.Mutex
	idx  map[any]int
	keys []any
	vals []any
	live []bool
	n    int
}

func (m *Map) Load(key any) (value any, ok bool) {
	mapYield()
	m.mu.Lock()
	defer m.mu.Unlock()
	i, ok := m.idx[key]
	if !ok {
		return nil, false
	}
	return m.vals[i], true
}

func (m *Map) storeLocked(key, value any) {
	if m.idx == nil {
		m.idx = map[any]int{}
	}
	if i, ok := m.idx[key]; ok {
		m.vals[i] = value
		return
	}
	m.idx[key] = len(m.keys)
	m.keys = append(m.keys, key)
	m.vals = append(m.vals, value)
	m.live = append(m.live, true)
	m.n++
}

func (m *Map) deleteLocked(key any) (any, bool) {
	i, ok := m.idx[key]
	if !ok {
		return nil, false
	}
	v := m.vals[i]
	delete(m.idx, key)
	m.live[i] = false
	m.vals[i] = nil
	m.keys[i] = nil
	m.n--
	if len(m.keys) > 32 && m.n < len(m.keys)/2 {
		var ks, vs []any
		var lv []bool
		m.idx = map[any]int{}
		for j := range m.keys {
			if m.live[j] {
				m.idx[m.keys[j]] = len(ks)
				ks = append(ks, m.keys[j])
				vs = append(vs, m.vals[j])
				lv = append(lv, true)
			}
		}
		m.keys, m.vals, m.live = ks, vs, lv
	}
	return v, true
}

func (m *Map) Store(key, value any) {
	mapYield()
	m.mu.Lock()
	m.storeLocked(key, value)
	m.mu.Unlock()
}

func (m *Map) Clear() {
	m.mu.Lock()
	m.idx, m.keys, m.vals, m.live, m.n = nil, nil, nil, nil, 0
	m.mu.Unlock()
}

func (m *Map) LoadOrStore(key, value any) (actual any, loaded bool) {
	mapYield()
	m.mu.Lock()
	defer m.mu.Unlock()
	if i, ok := m.idx[key]; ok {
		return m.vals[i], true
	}
	m.storeLocked(key, value)
	return value, false
}

func (m *Map) LoadAndDelete(key any) (value any, loaded bool) {
	mapYield()
	m.mu.Lock()
	defer m.mu.Unlock()
	return m.deleteLocked(key)
}

func (m *Map) Delete(key any) {
	m.mu.Lock()
	m.deleteLocked(key)
	m.mu.Unlock()
}

func (m *Map) Swap(key, value any) (previous any, loaded bool) {
	m.mu.Lock()
	defer m.mu.Unlock()
	if i, ok := m.idx[key]; ok {
		previous, loaded = m.vals[i], true
	}
	m.storeLocked(key, value)
	return
}

func (m *Map) CompareAndSwap(key, old, new any) (swapped bool) {
	m.mu.Lock()
	defer m.mu.Unlock()
	if i, ok := m.idx[key]; ok && m.vals[i] == old {
		m.vals[i] = new
		return true
	}
	return false
}

func (m *Map) CompareAndDelete(key, old any) (deleted bool) {
	m.mu.Lock()
	defer m.mu.Unlock()
	if i, ok := m.idx[key]; ok && m.vals[i] == old {
		m.deleteLocked(key)
		return true
	}
	return false
}

func (m *Map) Range(f func(key, value any) bool) {
	m.mu.Lock()
	ks := make([]any, 0, m.n)
	vs := make([]any, 0, m.n)
	for i := range m.keys {
		if m.live[i] {
			ks = append(ks, m.keys[i])
			vs = append(vs, m.vals[i])
		}
	}
	m.mu.Unlock()
	for i := range ks {
		if !f(ks[i], vs[i]) {
			break
		}
	}
}
