// Package simexec replaces "os/exec": commands are Go functions registered by
// path that run as simulated processes. Standard stream plumbing follows
// os/exec (one pipe + one copying goroutine per distinct non-file writer).
package simexec

import (
	"bytes"
	"context"
	"errors"
	"fmt"
	"io"
	"io/fs"
	"strings"
	"syscall"
	"time"

	"github.com/ErdemOzgen/blackdagger/internal/verifsim/simos"
	"github.com/ErdemOzgen/blackdagger/internal/verifsim/simrt"
	"github.com/ErdemOzgen/blackdagger/internal/verifsim/simsignal"
	"github.com/ErdemOzgen/blackdagger/internal/verifsim/simsync"
	"github.com/ErdemOzgen/blackdagger/internal/verifsim/simsyscall"
)

var (
	ErrNotFound  = errors.New("executable file not found in $PATH")
	ErrDot       = errors.New("cannot run executable found relative to current directory")
	ErrWaitDelay = errors.New("exec: WaitDelay expired before I/O complete")
)

type Error struct {
	Name string
	Err  error
}

func (e *Error) Error() string { return "exec: " + fmt.Sprintf("%q", e.Name) + ": " + e.Err.Error() }
func (e *Error) Unwrap() error { return e.Err }

type ExitError struct {
	*simos.ProcessState
	Stderr []byte
}

func (e *ExitError) Error() string { return e.ProcessState.String() }

// ProcCtx is what a registered program receives.
type ProcCtx struct {
	Proc   *simrt.Proc
	W      *simrt.World
	Path   string
	Args   []string
	Env    []string
	Dir    string
	Stdin  *simos.File
	Stdout *simos.File
	Stderr *simos.File
}

// Program is the body of a simulated executable; its result is the exit code.
type Program func(pc *ProcCtx) int

// Register makes prog runnable under the given path / bare name in world w.
func Register(w *simrt.World, name string, prog Program) {
	m, _ := w.Data["programs"].(map[string]Program)
	if m == nil {
		m = map[string]Program{}
		w.Data["programs"] = m
	}
	m[name] = prog
}

func lookup(w *simrt.World, name string) (string, Program, bool) {
	m, _ := w.Data["programs"].(map[string]Program)
	if p, ok := m[name]; ok {
		return name, p, true
	}
	if !strings.Contains(name, "/") {
		for _, dir := range []string{"/bin/", "/usr/bin/", "/sim/bin/"} {
			if p, ok := m[dir+name]; ok {
				return dir + name, p, true
			}
		}
	}
	return "", nil, false
}

func LookPath(file string) (string, error) {
	w := simrt.Current()
	if w == nil {
		return "", &Error{file, ErrNotFound}
	}
	if p, _, ok := lookup(w, file); ok {
		return p, nil
	}
	return "", &Error{file, ErrNotFound}
}

type Cmd struct {
	Path         string
	Args         []string
	Env          []string
	Dir          string
	Stdin        io.Reader
	Stdout       io.Writer
	Stderr       io.Writer
	ExtraFiles   []*simos.File
	SysProcAttr  *simsyscall.SysProcAttr
	Process      *simos.Process
	ProcessState *simos.ProcessState
	Err          error
	Cancel       func() error
	WaitDelay    time.Duration

	ctx      context.Context
	proc     *simrt.Proc
	copiers  simsync.WaitGroup
	copyErr  error
	parentFD []*simos.File
	closeAfterStart []*simos.File
	waited   bool
	ctxDone  chan struct{}
}

func Command(name string, arg ...string) *Cmd {
	c := &Cmd{Path: name, Args: append([]string{name}, arg...)}
	if w := simrt.Current(); w != nil {
		if p, _, ok := lookup(w, name); ok {
			c.Path = p
		} else {
			c.Err = &Error{name, ErrNotFound}
		}
	} else {
		c.Err = &Error{name, ErrNotFound}
	}
	return c
}

func CommandContext(ctx context.Context, name string, arg ...string) *Cmd {
	if ctx == nil {
		panic("nil Context")
	}
	c := Command(name, arg...)
	c.ctx = ctx
	return c
}

func (c *Cmd) String() string { return strings.Join(c.Args, " ") }

func (c *Cmd) Environ() []string {
	if c.Env != nil {
		return c.Env
	}
	return simos.Environ()
}

func (c *Cmd) Run() error {
	if err := c.Start(); err != nil {
		return err
	}
	return c.Wait()
}

func (c *Cmd) Output() ([]byte, error) {
	if c.Stdout != nil {
		return nil, errors.New("exec: Stdout already set")
	}
	var stdout bytes.Buffer
	c.Stdout = &stdout
	captureErr := c.Stderr == nil
	var stderr bytes.Buffer
	if captureErr {
		c.Stderr = &stderr
	}
	err := c.Run()
	if err != nil && captureErr {
		if ee, ok := err.(*ExitError); ok {
			ee.Stderr = stderr.Bytes()
		}
	}
	return stdout.Bytes(), err
}

func (c *Cmd) CombinedOutput() ([]byte, error) {
	if c.Stdout != nil {
		return nil, errors.New("exec: Stdout already set")
	}
	if c.Stderr != nil {
		return nil, errors.New("exec: Stderr already set")
	}
	var b bytes.Buffer
	c.Stdout = &b
	c.Stderr = &b
	err := c.Run()
	return b.Bytes(), err
}

func interfaceEqual(a, b any) bool {
	defer func() { _ = recover() }()
	return a == b
}

// childWriter sets up the child's end for one output stream.
func (c *Cmd) childWriter(w io.Writer) *simos.File {
	if w == nil {
		f, _ := simos.OpenFile(simos.DevNull, simos.O_WRONLY, 0)
		return f
	}
	if f, ok := w.(*simos.File); ok {
		simrt.Big.Lock()
		d := f.DupLocked()
		simrt.Big.Unlock()
		return d
	}
	simrt.Big.Lock()
	pr, pw := simos.PipeLocked()
	simrt.Big.Unlock()
	c.parentFD = append(c.parentFD, pr)
	c.copiers.Add(1)
	simrt.Go(func() {
		defer c.copiers.Done()
		_, err := io.Copy(w, pr)
		_ = pr.Close()
		if err != nil && c.copyErr == nil {
			c.copyErr = err
		}
	})
	return pw
}

func (c *Cmd) Start() error {
	w := simrt.Current()
	if w == nil {
		return &Error{c.Path, errors.New("simexec: not in a simulation")}
	}
	if c.Process != nil {
		return errors.New("exec: already started")
	}
	if c.Err != nil {
		return c.Err
	}
	if c.ctx != nil {
		select {
		case <-c.ctx.Done():
			return c.ctx.Err()
		default:
		}
	}
	path, prog, ok := lookup(w, c.Path)
	if !ok {
		return &Error{c.Path, ErrNotFound}
	}
	dir := c.Dir
	if dir != "" {
		if fi, err := simos.Stat(dir); err != nil {
			return &fs.PathError{Op: "chdir", Path: dir, Err: syscall.ENOENT}
		} else if !fi.IsDir() {
			return &fs.PathError{Op: "chdir", Path: dir, Err: syscall.ENOTDIR}
		}
	}
	flt := simrt.Syscall("spawn", path, 0)
	if flt.Kind == simrt.FErr {
		return &fs.PathError{Op: "fork/exec", Path: path, Err: flt.Errno}
	}
	parent := simrt.CurProc()

	// stdio
	var stdin *simos.File
	switch r := c.Stdin.(type) {
	case nil:
		stdin, _ = simos.OpenFile(simos.DevNull, simos.O_RDONLY, 0)
	case *simos.File:
		simrt.Big.Lock()
		stdin = r.DupLocked()
		simrt.Big.Unlock()
	default:
		simrt.Big.Lock()
		pr, pw := simos.PipeLocked()
		simrt.Big.Unlock()
		stdin = pr
		c.copiers.Add(1)
		simrt.Go(func() {
			defer c.copiers.Done()
			_, _ = io.Copy(pw, r)
			_ = pw.Close()
		})
	}
	stdout := c.childWriter(c.Stdout)
	var stderr *simos.File
	if c.Stderr != nil && interfaceEqual(c.Stderr, c.Stdout) {
		simrt.Big.Lock()
		stderr = stdout.DupLocked()
		simrt.Big.Unlock()
	} else {
		stderr = c.childWriter(c.Stderr)
	}

	env := c.Env
	if env == nil {
		env = simos.Environ()
	}
	newPgrp := c.SysProcAttr != nil && c.SysProcAttr.Setpgid
	args := append([]string{}, c.Args...)
	pc := &ProcCtx{W: w, Path: path, Args: args, Dir: dir, Stdin: stdin, Stdout: stdout, Stderr: stderr}
	p := w.Spawn(parent, progName(path, args), args, env, dir, newPgrp, func(p *simrt.Proc) int {
		pc.Proc = p
		pc.Env = p.Environ()
		if pc.Dir == "" {
			pc.Dir = p.Cwd
		}
		return prog(pc)
	})
	simrt.Big.Lock()
	for _, f := range []*simos.File{stdin, stdout, stderr} {
		f.AdoptLocked(p)
	}
	for _, f := range c.closeAfterStart {
		f.CloseLocked()
	}
	simrt.Big.Unlock()
	c.proc = p
	c.Process = &simos.Process{Pid: p.Pid, Impl: p}
	if c.ctx != nil && c.ctx.Done() != nil {
		done := c.ctx.Done()
		simrt.Go(func() {
			simrt.Yield()
			ctxDone, procDead := false, false
			select {
			case <-done:
				ctxDone = true
			case <-p.DeadCh:
				procDead = true
			case <-simrt.Dead():
				simrt.Die()
			}
			simrt.Woke()
			// By the time this goroutine runs again the other channel may be ready as well; Go would have
			// picked at random between the two, here the tape decides (replayable).
			select {
			case <-done:
				ctxDone = true
			default:
			}
			select {
			case <-p.DeadCh:
				procDead = true
			default:
			}
			if ctxDone && procDead && simrt.SelectOrder(2)[0] == 1 {
				ctxDone = false
			}
			if ctxDone {
				if c.Cancel != nil {
					_ = c.Cancel()
				} else {
					_ = simsignal.Deliver(p, syscall.SIGKILL)
				}
			}
		})
	}
	simrt.AfterSyscall(flt, "spawn", path)
	return nil
}

func progName(path string, args []string) string {
	base := path
	if i := strings.LastIndexByte(path, '/'); i >= 0 {
		base = path[i+1:]
	}
	if len(args) > 1 {
		return base + ":" + args[1]
	}
	return base
}

// WaitProc blocks until p has exited.
func WaitProc(p *simrt.Proc) {
	simrt.Yield()
	select {
	case <-p.DeadCh:
		simrt.Woke()
	case <-simrt.Dead():
		simrt.Die()
	}
}

func stateOf(p *simrt.Proc) *simos.ProcessState {
	st := &simos.ProcessState{Pid_: p.Pid, Code: p.ExitCode, Finished: true}
	if p.Signaled != "" {
		st.Signal = p.Signaled
	}
	return st
}

func (c *Cmd) Wait() error {
	if c.Process == nil {
		return errors.New("exec: not started")
	}
	if c.waited {
		return errors.New("exec: Wait was already called")
	}
	c.waited = true
	WaitProc(c.proc)
	simrt.Syscall("wait", c.Path, 0)
	c.ProcessState = stateOf(c.proc)
	waitDelayExpired := false
	if c.WaitDelay > 0 {
		// as os/exec: once the process has exited, the output copiers get WaitDelay to finish; after that the
		// parent's ends of the pipes are closed under them and Wait returns ErrWaitDelay
		done := make(chan struct{})
		simrt.Go(func() {
			c.copiers.Wait()
			close(done)
		})
		t := time.NewTimer(c.WaitDelay)
		simrt.Yield()
		copied, expired := false, false
		select {
		case <-done:
			copied = true
		case <-t.C:
			expired = true
		case <-simrt.Dead():
			simrt.Die()
		}
		simrt.Woke()
		if expired {
			// both may be ready by now: the tape decides, as in the watcher above
			select {
			case <-done:
				copied = true
			default:
			}
			if copied && simrt.SelectOrder(2)[0] == 0 {
				expired = false
			}
		}
		if expired {
			waitDelayExpired = true
			for _, f := range c.parentFD {
				_ = f.Close()
			}
			c.copiers.Wait()
		} else {
			t.Stop()
		}
	} else {
		c.copiers.Wait()
	}
	var err error
	if !c.ProcessState.Success() {
		err = &ExitError{ProcessState: c.ProcessState}
	} else if waitDelayExpired {
		err = ErrWaitDelay
	} else if c.copyErr != nil {
		err = c.copyErr
	}
	return err
}

func (c *Cmd) StdoutPipe() (io.ReadCloser, error) {
	if c.Stdout != nil {
		return nil, errors.New("exec: Stdout already set")
	}
	simrt.Big.Lock()
	pr, pw := simos.PipeLocked()
	simrt.Big.Unlock()
	c.Stdout = pw
	c.closeAfterStart = append(c.closeAfterStart, pw)
	return pr, nil
}

func (c *Cmd) StderrPipe() (io.ReadCloser, error) {
	if c.Stderr != nil {
		return nil, errors.New("exec: Stderr already set")
	}
	simrt.Big.Lock()
	pr, pw := simos.PipeLocked()
	simrt.Big.Unlock()
	c.Stderr = pw
	c.closeAfterStart = append(c.closeAfterStart, pw)
	return pr, nil
}

func (c *Cmd) StdinPipe() (io.WriteCloser, error) {
	if c.Stdin != nil {
		return nil, errors.New("exec: Stdin already set")
	}
	simrt.Big.Lock()
	pr, pw := simos.PipeLocked()
	simrt.Big.Unlock()
	c.Stdin = pr
	c.closeAfterStart = append(c.closeAfterStart, pr)
	return pw, nil
}

func init() {
	simos.ProcessKill = func(p *simos.Process) error {
		sp, _ := p.Impl.(*simrt.Proc)
		if sp == nil {
			if w := simrt.Current(); w != nil {
				sp = w.ProcByPid(p.Pid)
			}
		}
		if sp == nil {
			return simos.ErrProcessDone
		}
		if err := simsignal.Deliver(sp, syscall.SIGKILL); err != nil {
			return simos.ErrProcessDone
		}
		return nil
	}
	simos.ProcessSignal = func(p *simos.Process, sig simos.Signal) error {
		sp, _ := p.Impl.(*simrt.Proc)
		if sp == nil {
			if w := simrt.Current(); w != nil {
				sp = w.ProcByPid(p.Pid)
			}
		}
		s, ok := sig.(syscall.Signal)
		if sp == nil || !ok {
			return simos.ErrProcessDone
		}
		if err := simsignal.Deliver(sp, s); err != nil {
			return simos.ErrProcessDone
		}
		return nil
	}
	simos.ProcessWait = func(p *simos.Process) (*simos.ProcessState, error) {
		sp, _ := p.Impl.(*simrt.Proc)
		if sp == nil {
			return nil, errors.New("wait: no child processes")
		}
		WaitProc(sp)
		return stateOf(sp), nil
	}
}
