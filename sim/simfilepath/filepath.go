// Package simfilepath replaces "path/filepath": pure path functions are
// forwarded, the ones that touch the file system (Glob, WalkDir, Walk, Abs,
// EvalSymlinks) run against simos.
package simfilepath

import (
	"io/fs"
	"path/filepath"
	"sort"
	"strings"

	"github.com/ErdemOzgen/blackdagger/internal/verifsim/simos"
)

const (
	Separator     = '/'
	ListSeparator = ':'
)

var (
	ErrBadPattern = filepath.ErrBadPattern
	SkipDir       = fs.SkipDir
	SkipAll       = fs.SkipAll
)

type WalkFunc = filepath.WalkFunc

func Base(p string) string                   { return filepath.Base(p) }
func Clean(p string) string                  { return filepath.Clean(p) }
func Dir(p string) string                    { return filepath.Dir(p) }
func Ext(p string) string                    { return filepath.Ext(p) }
func FromSlash(p string) string              { return filepath.FromSlash(p) }
func ToSlash(p string) string                { return filepath.ToSlash(p) }
func IsAbs(p string) bool                    { return filepath.IsAbs(p) }
func IsLocal(p string) bool                  { return filepath.IsLocal(p) }
func Join(elem ...string) string             { return filepath.Join(elem...) }
func Match(pattern, name string) (bool, error) { return filepath.Match(pattern, name) }
func Rel(basepath, targpath string) (string, error) { return filepath.Rel(basepath, targpath) }
func Split(p string) (dir, file string)      { return filepath.Split(p) }
func SplitList(p string) []string            { return filepath.SplitList(p) }
func VolumeName(p string) string             { return "" }
func Localize(p string) (string, error)      { return filepath.Localize(p) }

func Abs(p string) (string, error) {
	if filepath.IsAbs(p) {
		return filepath.Clean(p), nil
	}
	wd, err := simos.Getwd()
	if err != nil {
		return "", err
	}
	return filepath.Join(wd, p), nil
}

func EvalSymlinks(p string) (string, error) {
	if _, err := simos.Lstat(p); err != nil {
		return "", err
	}
	return filepath.Clean(p), nil
}

// Glob is a port of path/filepath.Glob onto simos.
func Glob(pattern string) (matches []string, err error) {
	return globWithLimit(pattern, 0)
}

func globWithLimit(pattern string, depth int) (matches []string, err error) {
	const pathSeparatorsLimit = 10000
	if depth == pathSeparatorsLimit {
		return nil, ErrBadPattern
	}
	if _, err := filepath.Match(pattern, ""); err != nil {
		return nil, err
	}
	if !hasMeta(pattern) {
		if _, err = simos.Lstat(pattern); err != nil {
			return nil, nil
		}
		return []string{pattern}, nil
	}
	dir, file := filepath.Split(pattern)
	dir = cleanGlobPath(dir)
	if !hasMeta(dir) {
		return glob(dir, file, nil)
	}
	if dir == pattern {
		return nil, ErrBadPattern
	}
	var m []string
	m, err = globWithLimit(dir, depth+1)
	if err != nil {
		return
	}
	for _, d := range m {
		matches, err = glob(d, file, matches)
		if err != nil {
			return
		}
	}
	return
}

func cleanGlobPath(p string) string {
	switch p {
	case "":
		return "."
	case "/":
		return p
	default:
		return p[0 : len(p)-1]
	}
}

func glob(dir, pattern string, matches []string) (m []string, e error) {
	m = matches
	fi, err := simos.Stat(dir)
	if err != nil {
		return
	}
	if !fi.IsDir() {
		return
	}
	d, err := simos.Open(dir)
	if err != nil {
		return
	}
	defer d.Close()
	names, _ := d.Readdirnames(-1)
	sort.Strings(names)
	for _, n := range names {
		matched, err := filepath.Match(pattern, n)
		if err != nil {
			return m, err
		}
		if matched {
			m = append(m, filepath.Join(dir, n))
		}
	}
	return
}

func hasMeta(p string) bool { return strings.ContainsAny(p, `*?[\`) }

func WalkDir(root string, fn fs.WalkDirFunc) error {
	info, err := simos.Lstat(root)
	if err != nil {
		err = fn(root, nil, err)
	} else {
		err = walkDir(root, fs.FileInfoToDirEntry(info), fn)
	}
	if err == SkipDir || err == SkipAll {
		return nil
	}
	return err
}

func walkDir(p string, d fs.DirEntry, walkDirFn fs.WalkDirFunc) error {
	if err := walkDirFn(p, d, nil); err != nil || !d.IsDir() {
		if err == SkipDir && d.IsDir() {
			err = nil
		}
		return err
	}
	dirs, err := simos.ReadDir(p)
	if err != nil {
		err = walkDirFn(p, d, err)
		if err != nil {
			if err == SkipDir && d.IsDir() {
				err = nil
			}
			return err
		}
	}
	for _, d1 := range dirs {
		p1 := filepath.Join(p, d1.Name())
		if err := walkDir(p1, d1, walkDirFn); err != nil {
			if err == SkipDir {
				break
			}
			return err
		}
	}
	return nil
}

func Walk(root string, fn WalkFunc) error {
	return WalkDir(root, func(p string, d fs.DirEntry, err error) error {
		if err != nil {
			return fn(p, nil, err)
		}
		info, ierr := d.Info()
		return fn(p, info, ierr)
	})
}
