// Package simsyscall replaces "syscall" for the handful of identifiers the
// repository uses.
package simsyscall

import (
	"syscall"

	"github.com/ErdemOzgen/blackdagger/internal/verifsim/simrt"
	"github.com/ErdemOzgen/blackdagger/internal/verifsim/simsignal"
)

type (
	Signal = syscall.Signal
	Errno  = syscall.Errno
)

// SysProcAttr carries the fields blackdagger sets.
type SysProcAttr struct {
	Setpgid    bool
	Pgid       int
	Setsid     bool
	Foreground bool
	Pdeathsig  Signal
	Noctty     bool
	Setctty    bool
	Ctty       int
}

const (
	SIGABRT = syscall.SIGABRT
	SIGALRM = syscall.SIGALRM
	SIGCHLD = syscall.SIGCHLD
	SIGCONT = syscall.SIGCONT
	SIGHUP  = syscall.SIGHUP
	SIGINT  = syscall.SIGINT
	SIGKILL = syscall.SIGKILL
	SIGPIPE = syscall.SIGPIPE
	SIGQUIT = syscall.SIGQUIT
	SIGSTOP = syscall.SIGSTOP
	SIGTERM = syscall.SIGTERM
	SIGTSTP = syscall.SIGTSTP
	SIGUSR1 = syscall.SIGUSR1
	SIGUSR2 = syscall.SIGUSR2

	EACCES     = syscall.EACCES
	EAGAIN     = syscall.EAGAIN
	EEXIST     = syscall.EEXIST
	EINTR      = syscall.EINTR
	EINVAL     = syscall.EINVAL
	EIO        = syscall.EIO
	EMFILE     = syscall.EMFILE
	ENOENT     = syscall.ENOENT
	ENOSPC     = syscall.ENOSPC
	ENOTDIR    = syscall.ENOTDIR
	EPERM      = syscall.EPERM
	EPIPE      = syscall.EPIPE
	ESRCH      = syscall.ESRCH
	ECONNREFUSED = syscall.ECONNREFUSED
	EADDRINUSE = syscall.EADDRINUSE
)

func Getpid() int {
	if p := simrt.CurProc(); p != nil {
		return p.Pid
	}
	return syscall.Getpid()
}

func Getppid() int {
	if p := simrt.CurProc(); p != nil {
		return p.PPid
	}
	return syscall.Getppid()
}

// Getpgid returns the process group of a live simulated process (ESRCH for one that has exited and been reaped).
func Getpgid(pid int) (int, error) {
	w := simrt.Current()
	if w == nil {
		return syscall.Getpgid(pid)
	}
	if pid == 0 {
		return simrt.CurProc().Pgid, nil
	}
	for _, p := range w.LiveProcs() {
		if p.Pid == pid {
			return p.Pgid, nil
		}
	}
	return -1, syscall.ESRCH
}

// Kill delivers sig to a simulated process (pid > 0) or process group (pid < 0).
func Kill(pid int, sig Signal) error {
	w := simrt.Current()
	if w == nil {
		return syscall.ESRCH
	}
	simrt.Syscall("kill", simsignal.SigName(sig), pid)
	if pid > 0 {
		p := w.ProcByPid(pid)
		if p == nil {
			return syscall.ESRCH
		}
		return simsignal.Deliver(p, sig)
	}
	if pid == 0 {
		pid = -simrt.CurProc().Pgid
	}
	ps := w.ProcsInGroup(-pid)
	if len(ps) == 0 {
		return syscall.ESRCH
	}
	for _, p := range ps {
		_ = simsignal.Deliver(p, sig)
	}
	return nil
}

func Getenv(key string) (string, bool) {
	if p := simrt.CurProc(); p != nil {
		v, ok := p.Env[key]
		return v, ok
	}
	return syscall.Getenv(key)
}
