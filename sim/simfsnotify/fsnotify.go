// Package simfsnotify replaces github.com/fsnotify/fsnotify: inotify-like
// events generated from simos mutations on watched directories.
package simfsnotify

import (
	"errors"
	"path"
	"strings"

	"github.com/fsnotify/fsnotify"

	"github.com/ErdemOzgen/blackdagger/internal/verifsim/simos"
	"github.com/ErdemOzgen/blackdagger/internal/verifsim/simrt"
)

type (
	Event = fsnotify.Event
	Op    = fsnotify.Op
)

const (
	Create = fsnotify.Create
	Write  = fsnotify.Write
	Remove = fsnotify.Remove
	Rename = fsnotify.Rename
	Chmod  = fsnotify.Chmod
)

var (
	ErrNonExistentWatch = fsnotify.ErrNonExistentWatch
	ErrEventOverflow    = fsnotify.ErrEventOverflow
	ErrClosed           = fsnotify.ErrClosed
)

// FailNewWatcher makes NewWatcher fail in world w (inotify instances exhausted).
func FailNewWatcher(w *simrt.World, fail bool) { w.Data["fsnotify_fail"] = fail }

type Watcher struct {
	Events chan Event
	Errors chan error

	dirs    map[string]bool
	pending []Event
	q       simrt.WaitQ
	closed  bool
	done    chan struct{}
}

func NewWatcher() (*Watcher, error) {
	w := simrt.Current()
	if w == nil {
		return nil, errors.New("simfsnotify: outside a simulation")
	}
	if f, _ := w.Data["fsnotify_fail"].(bool); f {
		w.CountFault("watcher_init_fail")
		return nil, errors.New("too many open files")
	}
	simrt.Syscall("inotify_init", "", 0)
	wt := &Watcher{Events: make(chan Event), Errors: make(chan error), dirs: map[string]bool{}, done: make(chan struct{})}
	fsys := simos.CurFS()
	simrt.Big.Lock()
	fsys.Watchers = append(fsys.Watchers, func(ev simos.FsEvent) {
		// called under Big by the mutating goroutine
		if wt.closed || !wt.dirs[path.Dir(ev.Path)] {
			return
		}
		var op Op
		switch ev.Op {
		case "create":
			op = Create
		case "write":
			op = Write
		case "remove":
			op = Remove
		case "rename":
			op = Rename
		case "chmod":
			op = Chmod
		default:
			return
		}
		// inotify coalesces identical consecutive events
		if n := len(wt.pending); n > 0 && wt.pending[n-1].Name == ev.Path && wt.pending[n-1].Op == op {
			return
		}
		wt.pending = append(wt.pending, Event{Name: ev.Path, Op: op})
		wt.q.Broadcast()
	})
	simrt.Big.Unlock()
	// the reader goroutine, as in the real implementation
	simrt.Go(func() {
		g := simrt.CurG()
		for {
			simrt.Big.Lock()
			if wt.closed {
				simrt.Big.Unlock()
				return
			}
			if len(wt.pending) == 0 {
				wt.q.Wait(g, noDeadline)
				continue
			}
			ev := wt.pending[0]
			wt.pending = wt.pending[1:]
			simrt.Big.Unlock()
			// fault point: the backend reports an error on the Errors channel (as the real one does for a
			// failed or short read of the notification descriptor); no event is lost by it
			if flt := simrt.Syscall("inotify_read", ev.Name, 0); flt.Kind == simrt.FErr {
				simrt.Yield()
				select {
				case wt.Errors <- errors.New("simfsnotify: read of the notification descriptor failed"):
					simrt.Woke()
				case <-wt.done:
					simrt.Woke()
					return
				case <-simrt.Dead():
					simrt.Die()
				}
			}
			// (a watcher that is already closed delivers nothing more: decided here, not by Go's random choice
			// among ready cases)
			select {
			case <-wt.done:
				return
			default:
			}
			simrt.Yield()
			select {
			case wt.Events <- ev:
				simrt.Woke()
			case <-wt.done:
				simrt.Woke()
				return
			case <-simrt.Dead():
				simrt.Die()
			}
		}
	})
	return wt, nil
}

func (w *Watcher) Add(name string) error {
	ap := name
	if !strings.HasPrefix(ap, "/") {
		ap = simos.Cwd() + "/" + ap
	}
	ap = path.Clean(ap)
	if _, err := simos.Stat(ap); err != nil {
		return err
	}
	simrt.Big.Lock()
	w.dirs[ap] = true
	simrt.Big.Unlock()
	return nil
}

func (w *Watcher) AddWith(name string, opts ...any) error { return w.Add(name) }

func (w *Watcher) Remove(name string) error {
	simrt.Big.Lock()
	defer simrt.Big.Unlock()
	ap := path.Clean(name)
	if !w.dirs[ap] {
		return ErrNonExistentWatch
	}
	delete(w.dirs, ap)
	return nil
}

func (w *Watcher) WatchList() []string {
	simrt.Big.Lock()
	defer simrt.Big.Unlock()
	var out []string
	for d := range w.dirs {
		out = append(out, d)
	}
	return out
}

func (w *Watcher) Close() error {
	simrt.Big.Lock()
	if w.closed {
		simrt.Big.Unlock()
		return nil
	}
	w.closed = true
	close(w.done)
	w.q.Broadcast()
	simrt.Big.Unlock()
	return nil
}
