package simfsnotify

import "time"

var noDeadline time.Time
