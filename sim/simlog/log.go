// Package simlog replaces the standard "log" package: output goes to the
// calling simulated process's stderr sink (never a scheduling point) and
// Fatal* ends the simulated process instead of the test binary.
package simlog

import (
	"fmt"
	"io"
	"log"

	"github.com/ErdemOzgen/blackdagger/internal/verifsim/simos"
)

type Logger = log.Logger

const (
	Ldate         = log.Ldate
	Ltime         = log.Ltime
	Lmicroseconds = log.Lmicroseconds
	Llongfile     = log.Llongfile
	Lshortfile    = log.Lshortfile
	LUTC          = log.LUTC
	Lmsgprefix    = log.Lmsgprefix
	LstdFlags     = log.LstdFlags
)

func New(out io.Writer, prefix string, flag int) *Logger { return log.New(out, prefix, flag) }
func Default() *Logger                                   { return log.New(simos.Stderr, "", 0) }
func SetOutput(w io.Writer)                              {}
func SetFlags(flag int)                                  {}
func SetPrefix(prefix string)                            {}
func Flags() int                                         { return 0 }
func Prefix() string                                     { return "" }
func Writer() io.Writer                                  { return simos.Stderr }

func out(s string) {
	if len(s) == 0 || s[len(s)-1] != '\n' {
		s += "\n"
	}
	_, _ = simos.Stderr.WriteString(s)
}

func Print(v ...any)                 { out(fmt.Sprint(v...)) }
func Printf(format string, v ...any) { out(fmt.Sprintf(format, v...)) }
func Println(v ...any)               { out(fmt.Sprintln(v...)) }
func Fatal(v ...any)                 { out(fmt.Sprint(v...)); simos.Exit(1) }
func Fatalf(format string, v ...any) { out(fmt.Sprintf(format, v...)); simos.Exit(1) }
func Fatalln(v ...any)               { out(fmt.Sprintln(v...)); simos.Exit(1) }
func Panic(v ...any)                 { s := fmt.Sprint(v...); out(s); panic(s) }
func Panicf(format string, v ...any) { s := fmt.Sprintf(format, v...); out(s); panic(s) }
func Panicln(v ...any)               { s := fmt.Sprintln(v...); out(s); panic(s) }
func Output(calldepth int, s string) error { out(s); return nil }
