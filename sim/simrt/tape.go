package simrt

import (
	"math/rand/v2"
)

// Stream names a class of random decisions. Keeping classes apart lets the
// shrinker zero one class (e.g. all pre-emptions) without disturbing another
// (e.g. the generated scenario).
type Stream int

const (
	SGen   Stream = iota // scenario generation
	SSched               // who runs next, lock yields, pre-emptions
	SFault               // fault decisions
	SLat                 // op latencies, chunk sizes
	nStreams
)

var streamNames = [...]string{"gen", "sched", "fault", "lat"}

func (s Stream) String() string { return streamNames[s] }

// Tape is the only source of randomness in a run. In record mode every draw
// comes from a PRNG seeded with one integer and is remembered; in replay mode
// draws are read back from the remembered lists (0 once a list is exhausted).
// Value 0 is by convention the "boring" choice.
type Tape struct {
	Seed   uint64
	replay bool
	rng    [nStreams]*rand.Rand
	Rec    [nStreams][]uint32
	pos    [nStreams]int
	Draws  [nStreams]int
}

func NewTape(seed uint64) *Tape {
	t := &Tape{Seed: seed}
	for i := range t.rng {
		t.rng[i] = rand.New(rand.NewPCG(seed, uint64(i)*0x9e3779b97f4a7c15+1))
	}
	return t
}

// ReplayTape returns a tape that replays rec. A stream whose list is nil
// falls back to the PRNG of seed (used by the shrinker to pin only some
// streams); a non-nil, possibly empty list is strict.
func ReplayTape(seed uint64, rec [nStreams][]uint32) *Tape {
	t := NewTape(seed)
	t.replay = true
	t.Rec = rec
	return t
}

// Draw returns a value in [0,n).
func (t *Tape) Draw(s Stream, n int) int {
	if n <= 1 {
		return 0
	}
	t.Draws[s]++
	if t.replay && t.Rec[s] != nil {
		p := t.pos[s]
		t.pos[s]++
		if p >= len(t.Rec[s]) {
			return 0
		}
		return int(t.Rec[s][p]) % n
	}
	v := t.rng[s].IntN(n)
	if !t.replay {
		t.Rec[s] = append(t.Rec[s], uint32(v))
	} else {
		t.pos[s]++
	}
	return v
}

// Chance returns true with probability num/den. Recorded as 1 (true) / 0.
func (t *Tape) Chance(s Stream, num, den int) bool {
	if num <= 0 {
		return false
	}
	if t.replay && t.Rec[s] != nil {
		return t.Draw(s, 2) == 1
	}
	t.Draws[s]++
	v := t.rng[s].IntN(den) < num
	if !t.replay {
		if v {
			t.Rec[s] = append(t.Rec[s], 1)
		} else {
			t.Rec[s] = append(t.Rec[s], 0)
		}
	}
	return v
}

// Snapshot returns copies of the recorded streams.
func (t *Tape) Snapshot() [nStreams][]uint32 {
	var out [nStreams][]uint32
	for i := range t.Rec {
		out[i] = append([]uint32{}, t.Rec[i]...)
	}
	return out
}

// NStreams is the number of tape streams (for harness code building replay lists).
const NStreams = int(nStreams)
