// Package simrt is the deterministic simulation runtime: a token scheduler
// that decides which managed goroutine runs next, simulated processes,
// a choice tape, and an event log. It runs inside one testing/synctest
// bubble per run, which supplies the fake clock and quiescence detection.
package simrt

import (
	"fmt"
	"hash/fnv"
	"runtime"
	"runtime/debug"
	"sort"
	"strings"
	"sync"
	"sync/atomic"
	"testing"
	"testing/synctest"
	"time"
)

// Big protects all substrate state (scheduler lists, simulated file system,
// sockets, mutex bookkeeping). It is a real mutex, held only for short
// non-blocking critical sections, never while a goroutine is parked.
var Big sync.Mutex

// Progress is bumped at every scheduler step; an out-of-bubble watchdog reads it.
var Progress atomic.Uint64

type verdict int

const (
	vRun verdict = iota
	vDead
)

// Op describes the visible operation a goroutine is about to perform.
type Op struct {
	Kind string // "open", "write", "lock", "wake", "send", ...
	Res  string // resource (path, socket, mutex name)
}

// G is a managed goroutine.
type G struct {
	magic   uint64
	ID      string // deterministic: parent id + "." + spawn index
	Proc    *Proc
	W       *World
	release chan verdict
	nchild  int
	op      Op
	dying   bool
	Held    map[Releaser]struct{} // simsync locks held (for force-release on kill)
	idKey   []int
}

// Releaser is implemented by simsync locks so a killed goroutine's locks can be released.
type Releaser interface{ ForceRelease(g *G) }

// Proc is a simulated OS process: a goroutine tree with its own pid,
// environment, cwd, file table and signal handlers.
type Proc struct {
	Pid      int
	PPid     int
	Pgid     int
	Name     string
	Argv     []string
	Env      map[string]string
	EnvOrder []string
	Cwd      string
	W        *World

	Dead     bool
	DeadCh   chan struct{} // closed when the process is killed / exits
	ExitCode int
	Signaled string // name of the signal that terminated it, "" otherwise
	Exited   bool
	// FrozenUntil: the process is not scheduled before this instant of the fake clock (SIGSTOP-like
	// freeze / paused VM injected by an engine); its goroutines stop at their next visible operation.
	FrozenUntil time.Time
	gs       map[*G]struct{}
	OpCount  int // number of simulated syscalls issued so far (fault addressing)

	// resources cleaned up on death; registered by substrate packages
	cleanup []func()

	// signal handlers: sig number -> channels (managed by simsignal)
	SigMu    struct{}
	SigChans map[int][]any
	OnSignal func(sig int) bool // program-level hook (scripted children); return true if handled

	Data map[string]any // substrate-private per-process data (fd tables etc.)
}

type Event struct {
	Seq  uint64
	At   time.Duration
	Pid  int
	G    string
	Kind string
	A    string
	B    string
	N    int64
	X    any
}

func (e Event) String() string {
	s := fmt.Sprintf("#%05d t=%-12v p%-3d %-14s %s", e.Seq, e.At, e.Pid, e.Kind, e.A)
	if e.B != "" {
		s += " " + e.B
	}
	if e.N != 0 {
		s += fmt.Sprintf(" n=%d", e.N)
	}
	return s
}

// Fault is the verdict of the fault plan for one simulated syscall.
type Fault struct {
	Kind  FaultKind
	Errno error // for FErr
	N     int   // torn-write prefix length / short-write length
	Delay time.Duration
}

type FaultKind int

const (
	FNone FaultKind = iota
	FKillBefore
	FKillAfter
	FTorn // write a prefix of N bytes, then the process dies
	FErr  // the syscall fails with Errno (N bytes written first for writes)
	FSlow // the syscall takes Delay extra
)

// OpInfo is handed to the fault plan at every simulated syscall.
type OpInfo struct {
	Proc  *Proc
	G     *G
	Index int // per-process syscall index (0-based)
	Kind  string
	Path  string
	Len   int // bytes for write
}

type Config struct {
	Tape        *Tape
	MaxSteps    int
	MaxFakeTime time.Duration
	// Scheduling strategy knobs (drawn by the engine from the tape).
	SwitchNum, SwitchDen int // probability of switching away from the current goroutine when it is runnable
	LockYieldNum         int // out of 100: probability that an uncontended lock acquisition is a scheduling point
	PreemptDelayNum      int // out of 1000: probability that a yield point is preceded by a seeded stall
	MaxStall             time.Duration // 0 = no cap on the stall table (largest entry 7 s)
	LatencyScale         int // 0 = base latencies only
	PCTDepth             int // >0: PCT scheduling with that many priority change points
	PCTHorizon           int
	TraceOps             bool // keep a human-readable schedule trace
	// FaultPlan is consulted at every simulated syscall (may be nil).
	FaultPlan func(op *OpInfo) Fault
	// OnStep is called by the scheduler while every goroutine is parked or blocked.
	OnStep func(w *World)
	// OnOp is called (under no lock, by the goroutine itself, holding the token) after a syscall was admitted.
	OnOp func(op *OpInfo)
}

type Stats struct {
	Steps        int
	Switches     int
	TimeAdvances int
	LockYields   int
	Stalls       int
	Goroutines   int
	Procs        int
	Kills        int
	Faults       map[string]int
	Probes       map[string]int
	Ops          map[string]int
}

type World struct {
	Cfg    Config
	Tape   *Tape
	Start  time.Time
	parked []*G
	wake   chan struct{}
	cur    *G
	seq    uint64
	Events []Event
	Trace  []string
	procs  map[int]*Proc
	nextPid int
	ngor   int
	rootDone bool
	aborted  string
	Stats    Stats
	sigHash  uint64
	traceHash uint64
	Data   map[string]any // substrate/engine-private per-world data
	panics []string
	pctPrio map[*G]int
	pctChange map[int]bool
	pctLow int
}

type Result struct {
	Aborted   string // "", "steps", "faketime", "panic: ..."
	Panics    []string
	Steps     int
	FakeTime  time.Duration
	TraceHash uint64
	SchedSig  uint64
	Stats     Stats
	Events    []Event
	Trace     []string
	Blocked   string // stacks of goroutines at abort (hang diagnosis)
}

// Current returns the world of the calling managed goroutine (nil outside a simulation).
func Current() *World {
	if g := cur(); g != nil {
		return g.W
	}
	return nil
}

// CurG returns the calling managed goroutine (nil outside a simulation).
func CurG() *G { return cur() }

// CurProc returns the simulated process of the caller (nil outside a simulation).
func CurProc() *Proc {
	if g := cur(); g != nil {
		return g.Proc
	}
	return nil
}

// Run executes main as pid 1 ("harness") of a fresh world inside a synctest bubble.
func Run(t *testing.T, cfg Config, main func(w *World)) (res *Result) {
	res = &Result{}
	defer func() {
		if r := recover(); r != nil {
			res.Aborted = fmt.Sprintf("panic: %v", r)
			res.Blocked = string(debug.Stack())
		}
	}()
	synctest.Test(t, func(t *testing.T) {
		w := &World{
			Cfg:     cfg,
			Tape:    cfg.Tape,
			Start:   time.Now(),
			wake:    make(chan struct{}, 1),
			procs:   map[int]*Proc{},
			nextPid: 1,
			Data:    map[string]any{},
		}
		w.Stats.Faults = map[string]int{}
		w.Stats.Probes = map[string]int{}
		w.Stats.Ops = map[string]int{}
		if w.Cfg.MaxSteps == 0 {
			w.Cfg.MaxSteps = 2_000_000
		}
		if w.Cfg.MaxFakeTime == 0 {
			w.Cfg.MaxFakeTime = 24 * time.Hour
		}
		if w.Cfg.SwitchDen == 0 {
			w.Cfg.SwitchNum, w.Cfg.SwitchDen = 1, 4
		}
		if cfg.PCTDepth > 0 {
			w.pctPrio = map[*G]int{}
			w.pctChange = map[int]bool{}
			h := cfg.PCTHorizon
			if h <= 0 {
				h = 2000
			}
			for i := 0; i < cfg.PCTDepth; i++ {
				w.pctChange[w.Tape.Draw(SSched, h)] = true
			}
		}
		root := w.newProc(nil, "harness", []string{"harness"})
		root.Cwd = "/"
		g := w.newG(nil, root)
		w.startG(g, func() {
			defer func() {
				Big.Lock()
				w.rootDone = true
				Big.Unlock()
			}()
			main(w)
		})
		w.schedule()
		w.teardown()
		res.Aborted = w.aborted
		res.Panics = w.panics
		res.Steps = w.Stats.Steps
		res.FakeTime = time.Since(w.Start)
		res.TraceHash = w.traceHash
		res.SchedSig = w.sigHash
		res.Stats = w.Stats
		res.Events = w.Events
		res.Trace = w.Trace
	})
	return res
}

func (w *World) newProc(parent *Proc, name string, argv []string) *Proc {
	p := &Proc{
		Pid:      w.nextPid,
		Name:     name,
		Argv:     argv,
		Env:      map[string]string{},
		W:        w,
		DeadCh:   make(chan struct{}),
		gs:       map[*G]struct{}{},
		SigChans: map[int][]any{},
		Data:     map[string]any{},
	}
	w.nextPid++
	p.Pgid = p.Pid
	if parent != nil {
		p.PPid = parent.Pid
		p.Pgid = parent.Pgid
		p.Cwd = parent.Cwd
	}
	w.procs[p.Pid] = p
	w.Stats.Procs++
	return p
}

func (w *World) newG(parent *G, p *Proc) *G {
	g := &G{magic: gMagic, Proc: p, W: w, release: make(chan verdict)}
	if parent == nil {
		g.idKey = []int{p.Pid}
	} else if parent.Proc != p {
		g.idKey = []int{p.Pid}
	} else {
		parent.nchild++
		g.idKey = append(append([]int{}, parent.idKey...), parent.nchild)
	}
	parts := make([]string, len(g.idKey))
	for i, k := range g.idKey {
		parts[i] = fmt.Sprint(k)
	}
	g.ID = strings.Join(parts, ".")
	p.gs[g] = struct{}{}
	w.ngor++
	w.Stats.Goroutines++
	return g
}

// startG launches fn on a new real goroutine bound to g. The new goroutine
// parks before running any user code.
func (w *World) startG(g *G, fn func()) {
	go func() {
		setCur(g)
		defer g.exit()
		defer func() {
			if r := recover(); r != nil {
				Big.Lock()
				w.panics = append(w.panics, fmt.Sprintf("goroutine %s (pid %d %s): panic: %v\n%s", g.ID, g.Proc.Pid, g.Proc.Name, r, debug.Stack()))
				Big.Unlock()
				w.Emit("panic", fmt.Sprint(r), "", 0, nil)
				// a panicking goroutine takes its process down, as in real Go
				w.killProc(g.Proc, 2, "panic")
			}
		}()
		g.park(Op{Kind: "start"})
		fn()
	}()
}

func (g *G) exit() {
	Big.Lock()
	if g.dying || g.Proc.Dead {
		for len(g.Held) > 0 {
			var l Releaser
			for l = range g.Held {
				break
			}
			delete(g.Held, l)
			Big.Unlock()
			l.ForceRelease(g)
			Big.Lock()
		}
	}
	delete(g.Proc.gs, g)
	g.W.ngor--
	w := g.W
	Big.Unlock()
	select {
	case w.wake <- struct{}{}:
	default:
	}
	setCur(nil)
}

// Go starts fn as a new managed goroutine of the caller's process. Outside a
// simulation it is a plain go statement. (Rewrite R2 maps every go statement
// to this.)
func Go(fn func()) {
	g := cur()
	if g == nil {
		go fn()
		return
	}
	g.checkDead()
	Big.Lock()
	c := g.W.newG(g, g.Proc)
	Big.Unlock()
	g.W.startG(c, fn)
}

// park registers the caller as runnable-but-waiting-for-the-token and blocks
// until the scheduler releases it.
func (g *G) park(op Op) {
	w := g.W
	if fu := g.Proc.FrozenUntil; !fu.IsZero() {
		if d := time.Until(fu); d > 0 && !g.Proc.Dead {
			t := time.NewTimer(d)
			select {
			case <-t.C:
			case <-g.Proc.DeadCh:
				t.Stop()
			}
		}
	}
	Big.Lock()
	g.op = op
	w.parked = append(w.parked, g)
	Big.Unlock()
	select {
	case w.wake <- struct{}{}:
	default:
	}
	v := <-g.release
	if v == vDead || g.Proc.Dead {
		g.die()
	}
}

func (g *G) checkDead() {
	if g.Proc.Dead {
		g.die()
	}
}

func (g *G) die() {
	g.dying = true
	runtime.Goexit()
}

func less(a, b []int) bool {
	for i := 0; i < len(a) && i < len(b); i++ {
		if a[i] != b[i] {
			return a[i] < b[i]
		}
	}
	return len(a) < len(b)
}

func (w *World) schedule() {
	capTimer := time.NewTimer(w.Cfg.MaxFakeTime)
	defer capTimer.Stop()
	for {
		synctest.Wait()
		Progress.Add(1)
		Big.Lock()
		if w.rootDone {
			Big.Unlock()
			return
		}
		if w.aborted != "" {
			Big.Unlock()
			return
		}
		if w.Stats.Steps >= w.Cfg.MaxSteps {
			w.aborted = "steps"
			Big.Unlock()
			return
		}
		if time.Since(w.Start) >= w.Cfg.MaxFakeTime {
			w.aborted = "faketime"
			Big.Unlock()
			return
		}
		if len(w.parked) == 0 {
			Big.Unlock()
			w.Stats.TimeAdvances++
			select {
			case <-w.wake:
			case <-capTimer.C:
				w.aborted = "faketime"
				return
			}
			continue
		}
		sort.Slice(w.parked, func(i, j int) bool { return less(w.parked[i].idKey, w.parked[j].idKey) })
		// goroutines of dead processes go first, one at a time
		idx := -1
		for i, g := range w.parked {
			if g.Proc.Dead {
				idx = i
				break
			}
		}
		v := vRun
		if idx >= 0 {
			v = vDead
		} else {
			idx = w.choose()
		}
		g := w.parked[idx]
		w.parked = append(w.parked[:idx], w.parked[idx+1:]...)
		if w.cur != g {
			w.Stats.Switches++
		}
		w.cur = g
		w.Stats.Steps++
		w.noteStep(g)
		Big.Unlock()
		if v == vRun && w.Cfg.OnStep != nil {
			w.Cfg.OnStep(w)
		}
		g.release <- v
	}
}

func (w *World) noteStep(g *G) {
	h := fnv.New64a()
	fmt.Fprintf(h, "%d|%s|%s|%s|%d|%d", w.traceHash, g.ID, g.op.Kind, g.op.Res, time.Since(w.Start), g.Proc.Pid)
	w.traceHash = h.Sum64()
	// schedule signature: role-level abstraction (process name, op kind, resource class)
	h2 := fnv.New64a()
	fmt.Fprintf(h2, "%d|%s|%s|%s", w.sigHash, g.Proc.Name, g.op.Kind, resClass(g.op.Res))
	w.sigHash = h2.Sum64()
	if w.Cfg.TraceOps {
		w.Trace = append(w.Trace, fmt.Sprintf("s%05d t=%-10v g=%-8s p%d(%s) %s %s", w.Stats.Steps, time.Since(w.Start), g.ID, g.Proc.Pid, g.Proc.Name, g.op.Kind, g.op.Res))
	}
}

func resClass(r string) string {
	if i := strings.LastIndexByte(r, '.'); i >= 0 {
		return r[i:]
	}
	if len(r) > 12 {
		return r[:12]
	}
	return r
}

// choose picks the index of the next goroutine to run among w.parked (sorted). Big is held.
func (w *World) choose() int {
	n := len(w.parked)
	if w.pctPrio != nil {
		return w.choosePCT()
	}
	curIdx := -1
	for i, g := range w.parked {
		if g == w.cur {
			curIdx = i
			break
		}
	}
	if n == 1 {
		return 0
	}
	if curIdx >= 0 {
		if !w.Tape.Chance(SSched, w.Cfg.SwitchNum, w.Cfg.SwitchDen) {
			return curIdx
		}
	}
	return w.Tape.Draw(SSched, n)
}

func (w *World) choosePCT() int {
	// assign priorities lazily (higher runs first)
	for _, g := range w.parked {
		if _, ok := w.pctPrio[g]; !ok {
			w.pctPrio[g] = 1000 + w.Tape.Draw(SSched, 1_000_000)
		}
	}
	best := 0
	for i, g := range w.parked {
		if w.pctPrio[g] > w.pctPrio[w.parked[best]] {
			best = i
		}
	}
	if w.pctChange[w.Stats.Steps] {
		w.pctLow++
		w.pctPrio[w.parked[best]] = 1000 - w.pctLow
		best = 0
		for i, g := range w.parked {
			if w.pctPrio[g] > w.pctPrio[w.parked[best]] {
				best = i
			}
		}
	}
	return best
}

func (w *World) teardown() {
	Big.Lock()
	for _, p := range w.sortedProcs() {
		if !p.Dead {
			w.killProcLocked(p, -1, "teardown")
		}
	}
	Big.Unlock()
	deadline := 0
	for {
		synctest.Wait()
		Big.Lock()
		if w.ngor == 0 {
			Big.Unlock()
			return
		}
		if len(w.parked) > 0 {
			sort.Slice(w.parked, func(i, j int) bool { return less(w.parked[i].idKey, w.parked[j].idKey) })
			g := w.parked[0]
			w.parked = w.parked[1:]
			Big.Unlock()
			g.release <- vDead
			continue
		}
		Big.Unlock()
		deadline++
		if deadline > 1000 {
			buf := make([]byte, 1<<20)
			n := runtime.Stack(buf, true)
			panic(fmt.Sprintf("simrt: %d goroutines did not exit at teardown\n%s", w.ngor, buf[:n]))
		}
		// goroutines blocked in raw primitives that only time can wake
		select {
		case <-w.wake:
		case <-time.After(time.Hour):
		}
	}
}

func (w *World) sortedProcs() []*Proc {
	ps := make([]*Proc, 0, len(w.procs))
	for _, p := range w.procs {
		ps = append(ps, p)
	}
	sort.Slice(ps, func(i, j int) bool { return ps[i].Pid < ps[j].Pid })
	return ps
}

// Procs returns all processes ever created, by pid.
func (w *World) Procs() []*Proc {
	Big.Lock()
	defer Big.Unlock()
	return w.sortedProcs()
}

func (w *World) ProcByPid(pid int) *Proc {
	Big.Lock()
	defer Big.Unlock()
	return w.procs[pid]
}

// Abort ends the run early (engine-detected fatal condition).
func (w *World) Abort(why string) {
	Big.Lock()
	if w.aborted == "" {
		w.aborted = why
	}
	Big.Unlock()
}

// Now returns fake time since the start of the run.
func (w *World) Now() time.Duration { return time.Since(w.Start) }

// Emit appends an event to the world's history.
func (w *World) Emit(kind, a, b string, n int64, x any) uint64 {
	g := cur()
	Big.Lock()
	defer Big.Unlock()
	return w.emitLocked(g, kind, a, b, n, x)
}

func (w *World) emitLocked(g *G, kind, a, b string, n int64, x any) uint64 {
	w.seq++
	e := Event{Seq: w.seq, At: time.Since(w.Start), Kind: kind, A: a, B: b, N: n, X: x}
	if g != nil {
		e.Pid = g.Proc.Pid
		e.G = g.ID
	}
	w.Events = append(w.Events, e)
	h := fnv.New64a()
	fmt.Fprintf(h, "%d|%d|%d|%s|%s|%s|%d", w.traceHash, e.Seq, e.At, kind, a, b, n)
	w.traceHash = h.Sum64()
	if w.Cfg.TraceOps {
		w.Trace = append(w.Trace, "    "+e.String())
	}
	return e.Seq
}

// Seq returns the current global event sequence number.
func (w *World) Seq() uint64 {
	Big.Lock()
	defer Big.Unlock()
	return w.seq
}

// NextSeq allocates a sequence number without recording an event (for invoke/return stamps).
func (w *World) NextSeq() uint64 {
	Big.Lock()
	defer Big.Unlock()
	w.seq++
	return w.seq
}

func (w *World) Probe(name string) {
	Big.Lock()
	w.Stats.Probes[name]++
	Big.Unlock()
}

func (w *World) CountFault(name string) {
	Big.Lock()
	w.Stats.Faults[name]++
	Big.Unlock()
}
