// empty: allows body-less linkname declarations in gls.go
