package simrt

import (
	"unsafe"
)

// Goroutine-local storage: the goroutine's profiler-label slot holds a *G.
// The slot is inherited by child goroutines, which is why every managed
// goroutine overwrites it first thing (see Go).

//go:linkname runtime_getProfLabel runtime/pprof.runtime_getProfLabel
func runtime_getProfLabel() unsafe.Pointer

//go:linkname runtime_setProfLabel runtime/pprof.runtime_setProfLabel
func runtime_setProfLabel(labels unsafe.Pointer)

// cur returns the managed goroutine descriptor of the caller, or nil when the
// caller is not part of a simulation (package init, plain unit tests).
func cur() *G {
	p := runtime_getProfLabel()
	if p == nil {
		return nil
	}
	g := (*G)(p)
	if g.magic != gMagic {
		return nil
	}
	return g
}

func setCur(g *G) {
	runtime_setProfLabel(unsafe.Pointer(g))
}

const gMagic = 0x51e7a11d0c0ffee
