package simrt

import (
	"fmt"
	"sort"
	"time"
)

// Spawn creates a new simulated process running main on its first goroutine.
// The caller must be a managed goroutine. Env is copied.
func (w *World) Spawn(parent *Proc, name string, argv []string, env []string, cwd string, newPgrp bool, main func(p *Proc) int) *Proc {
	Big.Lock()
	p := w.newProc(parent, name, argv)
	if newPgrp {
		p.Pgid = p.Pid
	}
	if cwd != "" {
		p.Cwd = cwd
	}
	for _, kv := range env {
		for i := 0; i < len(kv); i++ {
			if kv[i] == '=' {
				k := kv[:i]
				if _, ok := p.Env[k]; !ok {
					p.EnvOrder = append(p.EnvOrder, k)
				}
				p.Env[k] = kv[i+1:]
				break
			}
		}
	}
	g := w.newG(nil, p)
	w.emitLocked(cur(), "proc_spawn", name, fmt.Sprint(argv), int64(p.Pid), nil)
	Big.Unlock()
	w.startG(g, func() {
		code := main(p)
		w.ExitProc(p, code)
	})
	return p
}

// ExitProc terminates p with the given exit code (os.Exit or main returning).
// If the caller belongs to p it does not return.
func (w *World) ExitProc(p *Proc, code int) {
	w.killProc(p, code, "")
	if g := cur(); g != nil && g.Proc == p {
		g.die()
	}
}

// KillProc terminates p as if by an uncatchable signal.
func (w *World) KillProc(p *Proc, sig string) {
	w.killProc(p, -1, sig)
	if g := cur(); g != nil && g.Proc == p {
		g.die()
	}
}

func (w *World) killProc(p *Proc, code int, sig string) {
	Big.Lock()
	w.killProcLocked(p, code, sig)
	Big.Unlock()
	select {
	case w.wake <- struct{}{}:
	default:
	}
}

func (w *World) killProcLocked(p *Proc, code int, sig string) {
	if p.Dead {
		return
	}
	p.Dead = true
	p.Exited = true
	p.ExitCode = code
	p.Signaled = sig
	if sig != "" && sig != "teardown" {
		w.Stats.Kills++
	}
	if sig != "teardown" {
		w.emitLocked(cur(), "proc_exit", p.Name, sig, int64(p.Pid), code)
	}
	cl := p.cleanup
	p.cleanup = nil
	for i := len(cl) - 1; i >= 0; i-- {
		cl[i]()
	}
	close(p.DeadCh)
}

// FreezeProc stops scheduling every goroutine of p for d of fake time (fault kind "freeze").
func (w *World) FreezeProc(p *Proc, d time.Duration) {
	if until := time.Now().Add(d); until.After(p.FrozenUntil) {
		p.FrozenUntil = until
	}
	w.CountFault("freeze")
}

// AtExit registers a resource clean-up to run (under Big) when the process dies.
func (p *Proc) AtExit(f func()) { p.cleanup = append(p.cleanup, f) }

// Alive reports whether the process has not exited (Big not required for a racy read by the token holder).
func (p *Proc) Alive() bool { return !p.Dead }

// Environ returns the environment in insertion order.
func (p *Proc) Environ() []string {
	out := make([]string, 0, len(p.EnvOrder))
	for _, k := range p.EnvOrder {
		if v, ok := p.Env[k]; ok {
			out = append(out, k+"="+v)
		}
	}
	return out
}

func (p *Proc) Setenv(k, v string) {
	if _, ok := p.Env[k]; !ok {
		p.EnvOrder = append(p.EnvOrder, k)
	}
	p.Env[k] = v
}

func (p *Proc) Unsetenv(k string) {
	if _, ok := p.Env[k]; ok {
		delete(p.Env, k)
		for i, kk := range p.EnvOrder {
			if kk == k {
				p.EnvOrder = append(p.EnvOrder[:i], p.EnvOrder[i+1:]...)
				break
			}
		}
	}
}

// LiveProcs returns the processes that have not exited, by pid.
func (w *World) LiveProcs() []*Proc {
	Big.Lock()
	defer Big.Unlock()
	var out []*Proc
	for _, p := range w.procs {
		if !p.Dead {
			out = append(out, p)
		}
	}
	sort.Slice(out, func(i, j int) bool { return out[i].Pid < out[j].Pid })
	return out
}

// ProcsInGroup returns live processes of a process group.
func (w *World) ProcsInGroup(pgid int) []*Proc {
	var out []*Proc
	for _, p := range w.LiveProcs() {
		if p.Pgid == pgid {
			out = append(out, p)
		}
	}
	return out
}

// ---------------------------------------------------------------------------
// scheduling points

// CheckDead terminates the calling goroutine if its process has been killed.
func CheckDead() {
	if g := cur(); g != nil {
		g.checkDead()
	}
}

// Yield is a pure scheduling point (rewrite R4 inserts it before blocking
// channel operations and selects).
func Yield() {
	g := cur()
	if g == nil {
		return
	}
	g.checkDead()
	g.maybeStall()
	g.park(Op{Kind: "yield"})
}

// YieldOp is a scheduling point with a description.
func YieldOp(kind, res string) {
	g := cur()
	if g == nil {
		return
	}
	g.checkDead()
	g.maybeStall()
	g.park(Op{Kind: kind, Res: res})
}

// Woke is the post-wake park: a goroutine that was woken by a real primitive
// (channel hand-off, timer) must not touch shared state before the scheduler
// hands it the token. It draws nothing from the tape.
func Woke() {
	g := cur()
	if g == nil {
		return
	}
	g.park(Op{Kind: "wake"})
}

// Dead returns a channel that is closed when the caller's process is killed
// (nil — blocks forever — outside a simulation). R4 adds it to every select.
func Dead() <-chan struct{} {
	g := cur()
	if g == nil {
		return nil
	}
	return g.Proc.DeadCh
}

// Die is the body of the `case <-simrt.Dead()` clause.
func Die() {
	g := cur()
	if g == nil {
		select {}
	}
	g.park(Op{Kind: "wake"})
	g.die()
}

// maybeStall injects a seeded stall (a descheduled thread) before a yield point.
func (g *G) maybeStall() {
	w := g.W
	if w.Cfg.PreemptDelayNum <= 0 {
		return
	}
	if !w.Tape.Chance(SSched, w.Cfg.PreemptDelayNum, 1000) {
		return
	}
	// durations: mostly sub-poll, sometimes spanning polls/timeouts
	table := []time.Duration{50 * time.Microsecond, time.Millisecond, 20 * time.Millisecond, 99 * time.Millisecond, 101 * time.Millisecond, 350 * time.Millisecond, 2 * time.Second, 7 * time.Second}
	d := table[w.Tape.Draw(SSched, len(table))]
	if w.Cfg.MaxStall > 0 && d > w.Cfg.MaxStall {
		d = w.Cfg.MaxStall
	}
	w.Stats.Stalls++
	g.rawSleep(d)
}

// rawSleep blocks for d of fake time (or until the process dies), then parks.
func (g *G) rawSleep(d time.Duration) {
	if d > 0 {
		t := time.NewTimer(d)
		select {
		case <-t.C:
		case <-g.Proc.DeadCh:
			t.Stop()
		}
	}
	g.park(Op{Kind: "wake"})
}

// Sleep replaces time.Sleep (R4).
func Sleep(d time.Duration) {
	g := cur()
	if g == nil {
		time.Sleep(d)
		return
	}
	g.checkDead()
	if d <= 0 {
		g.park(Op{Kind: "yield"})
		return
	}
	g.rawSleep(d)
}

// Syscall is called by the substrate at the start of every simulated system
// call. It is a kill point, a latency point, a scheduling point and the place
// where the fault plan is consulted. The returned Fault must be honoured by
// the caller (FKillBefore is handled here and does not return).
func Syscall(kind, path string, n int) Fault {
	g := cur()
	if g == nil {
		return Fault{}
	}
	g.checkDead()
	w := g.W
	p := g.Proc
	idx := p.OpCount
	p.OpCount++
	w.Stats.Ops[kind]++
	var f Fault
	info := &OpInfo{Proc: p, G: g, Index: idx, Kind: kind, Path: path, Len: n}
	if w.Cfg.FaultPlan != nil {
		f = w.Cfg.FaultPlan(info)
	}
	lat := w.latency(kind)
	if f.Kind == FSlow {
		lat += f.Delay
	}
	g.maybeStall()
	if lat > 0 {
		t := time.NewTimer(lat)
		select {
		case <-t.C:
		case <-p.DeadCh:
			t.Stop()
		}
	}
	g.park(Op{Kind: kind, Res: path})
	if w.Cfg.OnOp != nil {
		w.Cfg.OnOp(info)
	}
	if f.Kind == FKillBefore {
		w.CountFault("kill_before_op")
		w.Emit("fault", "kill_before_op", fmt.Sprintf("%s %s #%d", kind, path, idx), int64(p.Pid), nil)
		w.KillProc(p, "SIGKILL(fault)")
	}
	return f
}

// AfterSyscall is called by the substrate once the system call's effect is
// applied; it implements FKillAfter.
func AfterSyscall(f Fault, kind, path string) {
	if f.Kind != FKillAfter && f.Kind != FTorn {
		return
	}
	g := cur()
	if g == nil {
		return
	}
	name := "kill_after_op"
	if f.Kind == FTorn {
		name = "torn_write"
	}
	g.W.CountFault(name)
	g.W.Emit("fault", name, fmt.Sprintf("%s %s #%d n=%d", kind, path, g.Proc.OpCount-1, f.N), int64(g.Proc.Pid), nil)
	g.W.KillProc(g.Proc, "SIGKILL(fault)")
}

var baseLatency = map[string]time.Duration{
	"spawn": time.Millisecond, "wait": 0,
}

func (w *World) latency(kind string) time.Duration {
	base, ok := baseLatency[kind]
	if !ok {
		base = 20 * time.Microsecond
	}
	if w.Cfg.LatencyScale <= 0 {
		return base
	}
	// mostly base; a seeded fraction much slower
	switch w.Tape.Draw(SLat, 40) {
	case 1, 2, 3:
		return base + time.Duration(1+w.Tape.Draw(SLat, 900))*time.Microsecond
	case 4:
		return base + time.Duration(1+w.Tape.Draw(SLat, 40*w.Cfg.LatencyScale))*time.Millisecond
	case 5:
		if w.Cfg.LatencyScale >= 3 {
			return base + time.Duration(1+w.Tape.Draw(SLat, 12))*100*time.Millisecond
		}
	}
	return base
}

// ---------------------------------------------------------------------------
// channel wrappers (R4)

// RecvSlot declares the typed slots of a select receive case (rewrite R4).
func RecvSlot[T any](ch <-chan T) (v T, ok bool, got bool) { return }

// SelectOrder returns the order in which a rewritten select polls its cases:
// a permutation drawn from the tape (identity outside a simulation).
func SelectOrder(n int) []int {
	ord := make([]int, n)
	for i := range ord {
		ord[i] = i
	}
	g := cur()
	if g == nil || n < 2 {
		return ord
	}
	for i := n - 1; i > 0; i-- {
		j := g.W.Tape.Draw(SSched, i+1)
		ord[i], ord[j] = ord[j], ord[i]
	}
	return ord
}

// Recv replaces `<-ch`.
func Recv[T any](ch <-chan T) T {
	g := cur()
	if g == nil {
		return <-ch
	}
	g.checkDead()
	g.maybeStall()
	g.park(Op{Kind: "recv"})
	select {
	case v := <-ch:
		g.park(Op{Kind: "wake"})
		return v
	case <-g.Proc.DeadCh:
		g.park(Op{Kind: "wake"})
		g.die()
	}
	panic("unreachable")
}

// Recv2 replaces `v, ok := <-ch`.
func Recv2[T any](ch <-chan T) (T, bool) {
	g := cur()
	if g == nil {
		v, ok := <-ch
		return v, ok
	}
	g.checkDead()
	g.maybeStall()
	g.park(Op{Kind: "recv"})
	select {
	case v, ok := <-ch:
		g.park(Op{Kind: "wake"})
		return v, ok
	case <-g.Proc.DeadCh:
		g.park(Op{Kind: "wake"})
		g.die()
	}
	panic("unreachable")
}

// Send replaces `ch <- v`.
func Send[T any](ch chan<- T, v T) {
	g := cur()
	if g == nil {
		ch <- v
		return
	}
	g.checkDead()
	g.maybeStall()
	g.park(Op{Kind: "send"})
	select {
	case ch <- v:
		g.park(Op{Kind: "wake"})
	case <-g.Proc.DeadCh:
		g.park(Op{Kind: "wake"})
		g.die()
	}
}

// ---------------------------------------------------------------------------
// condition-style waiting for substrate objects

// WaitQ is a set of goroutines waiting for a substrate object to change.
// All access under Big.
type WaitQ struct {
	ws []chan struct{}
}

// Broadcast wakes every waiter (Big must be held). Woken goroutines park
// before doing anything, so the order of wake-ups is irrelevant.
func (q *WaitQ) Broadcast() {
	for _, c := range q.ws {
		close(c)
	}
	q.ws = nil
}

// Wait must be called with Big held by a managed goroutine; it releases Big,
// blocks until Broadcast, deadline (zero = none) or process death, parks, and
// returns with Big NOT held. timedOut reports a deadline expiry.
func (q *WaitQ) Wait(g *G, deadline time.Time) (timedOut bool) {
	c := make(chan struct{})
	q.ws = append(q.ws, c)
	Big.Unlock()
	var tc <-chan time.Time
	var t *time.Timer
	if !deadline.IsZero() {
		d := time.Until(deadline)
		if d < 0 {
			d = 0
		}
		t = time.NewTimer(d)
		tc = t.C
	}
	select {
	case <-c:
	case <-tc:
		timedOut = true
	case <-g.Proc.DeadCh:
	}
	if t != nil {
		t.Stop()
	}
	if timedOut {
		Big.Lock()
		for i, cc := range q.ws {
			if cc == c {
				q.ws = append(q.ws[:i], q.ws[i+1:]...)
				break
			}
		}
		Big.Unlock()
	}
	g.park(Op{Kind: "wake"})
	return timedOut
}

// WaitUnmanaged is the fallback for goroutines outside a simulation (plain unit tests on the stubs).
func (q *WaitQ) WaitUnmanaged(deadline time.Time) (timedOut bool) {
	c := make(chan struct{})
	q.ws = append(q.ws, c)
	Big.Unlock()
	if deadline.IsZero() {
		<-c
		return false
	}
	select {
	case <-c:
		return false
	case <-time.After(time.Until(deadline)):
		Big.Lock()
		for i, cc := range q.ws {
			if cc == c {
				q.ws = append(q.ws[:i], q.ws[i+1:]...)
				break
			}
		}
		Big.Unlock()
		return true
	}
}
