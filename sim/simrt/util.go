package simrt

import (
	"cmp"
	"fmt"
	"os"
	"reflect"
	"sort"
)

// MapKeys returns the keys of m sorted and then permuted by the tape, so that
// Go's randomised map iteration becomes a seeded choice (rewrite R3).
func MapKeys[M ~map[K]V, K comparable, V any](m M) []K {
	keys := make([]K, 0, len(m))
	for k := range m {
		keys = append(keys, k)
	}
	if len(keys) < 2 {
		return keys
	}
	sortKeys(keys)
	if g := cur(); g != nil {
		w := g.W
		for i := len(keys) - 1; i > 0; i-- {
			j := w.Tape.Draw(SSched, i+1)
			keys[i], keys[j] = keys[j], keys[i]
		}
	}
	return keys
}

func sortKeys[K comparable](keys []K) {
	switch ks := any(keys).(type) {
	case []string:
		sort.Strings(ks)
		return
	case []int:
		sort.Ints(ks)
		return
	}
	rv := reflect.ValueOf(keys)
	if rv.Len() == 0 {
		return
	}
	switch rv.Index(0).Kind() {
	case reflect.Int, reflect.Int8, reflect.Int16, reflect.Int32, reflect.Int64:
		sort.Slice(keys, func(i, j int) bool { return cmp.Less(rv.Index(i).Int(), rv.Index(j).Int()) })
	case reflect.Uint, reflect.Uint8, reflect.Uint16, reflect.Uint32, reflect.Uint64:
		sort.Slice(keys, func(i, j int) bool { return rv.Index(i).Uint() < rv.Index(j).Uint() })
	case reflect.String:
		sort.Slice(keys, func(i, j int) bool { return rv.Index(i).String() < rv.Index(j).String() })
	default:
		sort.SliceStable(keys, func(i, j int) bool { return fmt.Sprint(keys[i]) < fmt.Sprint(keys[j]) })
	}
}

// CheckErr replaces cobra.CheckErr (which would call the real os.Exit).
func CheckErr(msg any) {
	if msg == nil {
		return
	}
	if v := reflect.ValueOf(msg); v.Kind() == reflect.Ptr && v.IsNil() {
		return
	}
	g := cur()
	if g == nil {
		fmt.Fprintln(os.Stderr, "Error:", msg)
		os.Exit(1)
	}
	g.W.Emit("checkerr", fmt.Sprint(msg), "", 0, nil)
	g.W.ExitProc(g.Proc, 1)
}
