package engines

import (
	"encoding/json"
	"fmt"
	"syscall"
	"sort"
	"strings"
	"testing"
	"time"

	"github.com/ErdemOzgen/blackdagger/internal/dag"
	"github.com/ErdemOzgen/blackdagger/internal/persistence/model"
	"github.com/ErdemOzgen/blackdagger/internal/verifsim/simrt"
)

// apisim (C20): a server process holds the real frontend/dag handler; the
// harness posts seeded action sequences to the generated operation handler
// while real agents (spawned by the real client through the simulated exec)
// run, finish, fail, are stopped or are killed. Each action's answer and
// effect is judged against the ground-truth state of the DAG's processes
// (interval rule where the state changes during the call) and against full
// dumps of histories, definitions and flags before and after.

func init() {
	register("apisim", apisim)
	PropEngines["C20"] = struct {
		Engine   string
		Variants []string
	}{"apisim", []string{"api"}}
}

type apiAction struct {
	Kind   string      `json:"kind"` // start stop retry suspend mark-success mark-failed save rename unknown nil | wait kill
	Dag    int         `json:"dag"`
	Params []paramItem `json:"params,omitempty"`
	ReqSel int         `json:"reqSel,omitempty"`  // 0 latest, 1 an older run, 2 bogus, 3 missing, 4 a run of the other DAG
	StepSel int        `json:"stepSel,omitempty"` // 0 a valid step, 1 bogus, 2 missing
	Value  string      `json:"value,omitempty"`
	WaitMs int         `json:"waitMs,omitempty"`
	BadDag bool        `json:"badDag,omitempty"` // address a DAG id that does not exist
}

type apiScenario struct {
	Variant string      `json:"variant"`
	Sched   SchedCfg    `json:"sched"`
	Dags    []*DagSpec  `json:"dags"`
	Actions []apiAction `json:"actions"`
}

// what the harness recorded about one action
type apiObs struct {
	act        apiAction
	inv, ret   uint64
	invAt      time.Duration
	retAt      time.Duration
	resp       apiResp
	before     map[string]string
	after      map[string]string
	reqID      string // request id addressed (mark-*, retry)
	step       string
	rendered   string
	reqUnknown bool     // the addressed request id is not a recorded run of the DAG
	viewBefore, viewAfter *model.Status // the addressed run as the API's own lookup by request id shows it
	vinv, vret            uint64        // stamps around the two lookups
	diskFaults            int           // injected write failures while the action was being served
	start      *cliProc // the process spawned for an accepted start
}

func genAPIDag(tp *simrt.Tape, file string) *DagSpec {
	d := &DagSpec{File: file, MaxCleanUpSec: 2}
	n := 1 + tp.Draw(simrt.SGen, 3)
	for i := 0; i < n; i++ {
		s := StepSpec{Name: fmt.Sprintf("s%d", i), RetryLimit: -1, DurMs: []int{pick(tp, 50, 400, 2000, 5000, 9000)}}
		if i > 0 && chance(tp, 2, 3) {
			s.Depends = []string{fmt.Sprintf("s%d", i-1)}
		}
		d.Steps = append(d.Steps, s)
	}
	return d
}

func apisim(t *testing.T, tp *simrt.Tape, opts RunOpts) *Outcome {
	out := &Outcome{}
	sc := &apiScenario{Variant: opts.Variant}
	schedCfg, cfg := drawSchedCfg(tp, true)
	sc.Sched = schedCfg
	cfg.TraceOps = opts.Trace
	cfg.MaxFakeTime = 3 * time.Hour
	cfg.MaxSteps = 2_500_000
	cfg.MaxStall = 2 * time.Second // below the status protocol's 3 s client timeout (see agentsim)
	if cfg.LatencyScale > 1 {
		cfg.LatencyScale = 1
	}
	nd := 1 + tp.Draw(simrt.SGen, 2)
	for i := 0; i < nd; i++ {
		sc.Dags = append(sc.Dags, genAPIDag(tp, []string{"wf", "wf two"}[i]))
	}
	na := 6 + tp.Draw(simrt.SGen, 9)
	if opts.Thorough {
		na = 6 + tp.Draw(simrt.SGen, 20)
	}
	for i := 0; i < na; i++ {
		a := apiAction{Dag: tp.Draw(simrt.SGen, nd)}
		a.Kind = pick(tp, "start", "start", "start", "stop", "stop", "retry", "suspend", "mark-success", "mark-failed", "mark-failed", "save", "rename", "unknown", "nil", "wait", "wait", "kill", "kill-torn")
		a.ReqSel = pick(tp, 0, 0, 0, 1, 1, 2, 3, 4)
		a.StepSel = pick(tp, 0, 0, 0, 0, 1, 2)
		a.WaitMs = pick(tp, 30, 300, 1200, 2500, 6000, 12000)
		a.BadDag = chance(tp, 1, 12)
		switch a.Kind {
		case "start":
			if chance(tp, 2, 3) {
				a.Params = genParamItems(tp)
			}
		case "suspend":
			a.Value = pick(tp, "true", "false", "maybe")
		case "save":
			a.Value, _ = storeText(pick(tp, txBadYAML, txUnknownKey, txNoCommand, txBadCron), i+1)
		case "rename":
			a.Value = "" // malformed: the new name is missing
		}
		sc.Actions = append(sc.Actions, a)
	}
	out.Sample = sc

	var cw *cliWorld
	var obs []*apiObs
	// agent processes adopted from spawns made by blackdagger itself
	nSpawn := map[string]int{}
	// which agent processes wrote to which record file (a record that holds no complete status yet, or never
	// will because its writer was killed inside its first write, cannot be attributed by its content)
	datWriters := map[string]map[int]bool{}
	cfg.OnOp = func(op *simrt.OpInfo) {
		if cw != nil {
			cw.noteOp(op)
		}
		if op.Kind == "write" && op.Proc.Name != "server" && strings.HasSuffix(op.Path, ".dat") {
			if datWriters[op.Path] == nil {
				datWriters[op.Path] = map[int]bool{}
			}
			datWriters[op.Path][op.Proc.Pid] = true
		}
	}
	specFor := func(path string, sub string) *DagSpec {
		for _, d := range sc.Dags {
			if dagPath(d) == path {
				// every invocation gets its own outcome script: mostly fine, sometimes a failing step
				k := nSpawn[path]
				nSpawn[path]++
				sp := cloneSpec(d)
				if k%3 == 1 {
					sp.Steps[len(sp.Steps)-1].FailFirst = -1
				}
				return sp
			}
		}
		return nil
	}
	// fault "no_space": in a third of the scenarios some of the server's own writes to history records fail
	// with ENOSPC (nothing written): the edit is then refused and must have changed nothing — neither on disk
	// nor in what the server itself shows afterwards
	nDiskFaults := 0
	noSpace := chance(tp, 1, 3)
	killAt := map[int]uint64{} // pid -> seq at which the harness killed it
	// fault "torn_write" (action kill-torn): the agent of the addressed DAG dies in the middle of its next write
	// to its record; what it leaves is a record whose last line is incomplete
	tornArmed := ""
	cfg.FaultPlan = func(op *simrt.OpInfo) simrt.Fault {
		if op.Kind != "write" || !strings.HasSuffix(op.Path, ".dat") {
			return simrt.Fault{}
		}
		if op.Proc.Name != "server" {
			if tornArmed != "" && op.Len > 2 && strings.HasPrefix(op.Path, tornArmed) {
				tornArmed = ""
				op.Proc.W.CountFault("torn_write")
				killAt[op.Proc.Pid] = op.Proc.W.NextSeq()
				return simrt.Fault{Kind: simrt.FTorn, N: pick(tp, op.Len-1, op.Len-1, 1+tp.Draw(simrt.SFault, op.Len-1))}
			}
			return simrt.Fault{}
		}
		if !noSpace || !tp.Chance(simrt.SFault, 1, 2) {
			return simrt.Fault{}
		}
		op.Proc.W.CountFault("no_space")
		nDiskFaults++
		return simrt.Fault{Kind: simrt.FErr, Errno: syscall.ENOSPC}
	}
	res := simrt.Run(t, cfg, func(w *simrt.World) {
		cw = newCLIWorld(w, tp)
		cw.specFor = specFor
		for _, d := range sc.Dags {
			fsOf(w).PutFile(dagPath(d), []byte(d.YAML()), 0o644)
		}
		dump := func() map[string]string {
			m := map[string]string{}
			for _, dir := range []string{dagsDir, dataDir, flagDir} {
				for k, v := range dumpDir(w, dir) {
					m[k] = v
				}
			}
			return m
		}
		inProc(w, "server", func() {
			srv := newAPIServer()
			for _, a := range sc.Actions {
				d := sc.Dags[a.Dag]
				id := d.File
				if a.BadDag {
					id = "no such dag"
				}
				switch a.Kind {
				case "wait":
					simrt.Sleep(time.Duration(a.WaitMs) * time.Millisecond)
					continue
				case "kill-torn":
					if !a.BadDag {
						for _, cp := range cw.procs {
							if cp.spec != nil && cp.proc.Alive() && cp.args[len(cp.args)-1] == dagPath(d) {
								tornArmed = recordDirPrefix(d)
								bump(out, "torn_kill_armed")
								break
							}
						}
					}
					simrt.Sleep(time.Duration(a.WaitMs) * time.Millisecond)
					reapOrphans(w)
					continue
				case "kill":
					for _, cp := range cw.procs {
						if cp.spec != nil && cp.proc.Alive() && cp.args[len(cp.args)-1] == dagPath(d) {
							killAt[cp.proc.Pid] = w.NextSeq()
							w.KillProc(cp.proc, "SIGKILL")
							bump(out, "agent_killed")
							break
						}
					}
					reapOrphans(w)
					simrt.Sleep(50 * time.Millisecond)
					continue
				}
				o := &apiObs{act: a}
				// arguments
				if a.Kind == "retry" || strings.HasPrefix(a.Kind, "mark-") {
					o.reqID, o.reqUnknown = pickReqID(w, sc, a)
					switch a.StepSel {
					case 0:
						o.step = d.Steps[a.ReqSel%len(d.Steps)].Name
					case 1:
						o.step = "no-such-step"
					}
				}
				var action *string
				switch a.Kind {
				case "nil":
				case "unknown":
					action = act("explode")
				default:
					action = act(a.Kind)
				}
				o.rendered = renderParams(a.Params)
				view := func() *model.Status {
					if !strings.HasPrefix(a.Kind, "mark-") || o.reqID == "" || a.BadDag {
						return nil
					}
					st, err := srv.cli.GetStatusByRequestID(&dag.DAG{Name: d.File, Location: dagPath(d)}, o.reqID)
					if err != nil {
						return nil
					}
					return st
				}
				o.vinv = w.NextSeq()
				o.diskFaults = -nDiskFaults
				o.viewBefore = view()
				o.before = dump()
				o.inv, o.invAt = w.NextSeq(), w.Now()
				o.resp = srv.action(id, action, a.Value, o.reqID, o.step, o.rendered)
				o.ret, o.retAt = w.NextSeq(), w.Now()
				o.after = dump()
				o.viewAfter = view()
				o.vret = w.NextSeq()
				o.diskFaults += nDiskFaults
				obs = append(obs, o)
				// settle: asynchronous effects of this action (the spawned start) happen before the next one
				simrt.Sleep(time.Duration(pick(tp, 400, 400, 900, 2500)) * time.Millisecond)
			}
			// let every pending start be spawned and every run come to its end
			simrt.Sleep(8 * time.Second)
			deadline := 0
			for deadline < 600 {
				alive := false
				for _, cp := range cw.procs {
					if cp.proc.Alive() {
						alive = true
					}
				}
				if !alive {
					break
				}
				simrt.Sleep(500 * time.Millisecond)
				deadline++
			}
		})
	})
	finishOutcome(out, res, opts, "C20")
	if out.Infra != "" || cw == nil {
		return out
	}
	cw.truth.Finalize(res.Events)
	chk := &agentCheck{out: out, prop: "C20"}
	spawnSeq, exitSeq := map[int]uint64{}, map[int]uint64{}
	for _, e := range res.Events {
		switch e.Kind {
		case "proc_spawn":
			spawnSeq[int(e.N)] = e.Seq
		case "proc_exit":
			exitSeq[int(e.N)] = e.Seq
		}
	}
	end := func(pid int) uint64 {
		if s, ok := exitSeq[pid]; ok {
			return s
		}
		return ^uint64(0)
	}
	// request id -> agent pid (from the final disk state)
	pidOfReq := map[string]int{}
	for p, content := range fsOf(cw.w).Dump(dataDir) {
		if !strings.HasSuffix(p, ".dat") {
			continue
		}
		for _, ln := range strings.Split(content, "\n") {
			if st, err := model.StatusFromJSON(ln); err == nil && st.RequestID != "" {
				if _, ok := pidOfReq[st.RequestID]; !ok {
					pidOfReq[st.RequestID] = int(st.PID)
				}
			}
		}
	}
	agentsOf := func(d *DagSpec) []*cliProc {
		var r []*cliProc
		for _, cp := range cw.procs {
			if cp.spec != nil && cp.args[len(cp.args)-1] == dagPath(d) {
				r = append(r, cp)
			}
		}
		return r
	}
	// ---- every process the server spawned belongs to exactly one accepted action, and vice versa
	usedProc := map[*cliProc]bool{}
	for _, o := range obs {
		if o.act.Kind != "start" || !o.resp.ok() || o.act.BadDag {
			continue
		}
		d := sc.Dags[o.act.Dag]
		wantArgs := []string{"start"}
		if o.rendered != "" {
			wantArgs = append(wantArgs, "-p", `"`+o.rendered+`"`)
		}
		wantArgs = append(wantArgs, dagPath(d))
		for _, cp := range cw.procs {
			if usedProc[cp] || cp.sub != "start" || !isServerChild(cw, cp) || spawnSeq[cp.proc.Pid] < o.inv || cp.args[len(cp.args)-1] != dagPath(d) {
				continue
			}
			if o.start == nil && strings.Join(cp.args, "\x00") == strings.Join(wantArgs, "\x00") {
				o.start = cp
				usedProc[cp] = true
			}
		}
		if o.start == nil {
			var seen []string
			for _, cp := range cw.procs {
				if !usedProc[cp] && cp.sub == "start" && isServerChild(cw, cp) && spawnSeq[cp.proc.Pid] > o.inv {
					seen = append(seen, fmt.Sprintf("%q", cp.args))
				}
			}
			chk.viol("accepted-start-not-passed-on", paramShape(o.act.Params), "start of %q with params %s was answered %d but no process `blackdagger %q` was started (unclaimed start processes: %v)", d.File, o.rendered, o.resp.Code, wantArgs, seen)
		}
	}
	for _, cp := range cw.procs {
		if !isServerChild(cw, cp) || usedProc[cp] {
			continue
		}
		claimed := false
		for _, o := range obs {
			if o.act.Kind == cp.sub && cp.sub != "start" && spawnSeq[cp.proc.Pid] > o.inv && spawnSeq[cp.proc.Pid] < o.ret {
				claimed = true
			}
		}
		if !claimed {
			chk.viol("process-without-accepted-action", cp.sub, "the server started `blackdagger %q` although no accepted action asked for it", cp.args)
		}
	}
	for _, o := range obs {
		a := o.act
		d := sc.Dags[a.Dag]
		// ---- ground truth about the DAG's run during [inv, ret]
		defRunning, anyAlive := false, false
		for _, cp := range agentsOf(d) {
			sp, ex := spawnSeq[cp.proc.Pid], end(cp.proc.Pid)
			if sp < o.ret && ex > o.inv {
				anyAlive = true
			}
			if cp.bindSeq != 0 && cp.bindSeq < o.inv && ex > o.ret && (cp.unbindSeq == 0 || cp.unbindSeq > o.ret) {
				// its socket is its own only if no other agent of the same file lived at the same time
				// (two concurrent agents are C16's subject: the later bind takes the socket path over)
				alone := true
				for _, other := range agentsOf(d) {
					if other != cp && spawnSeq[other.proc.Pid] < ex && end(other.proc.Pid) > sp {
						alone = false
					}
				}
				if alone {
					defRunning = true
				} else {
					bump(out, "concurrent_agents_of_one_dag")
				}
			}
		}
		if o.retAt-o.invAt >= 2900*time.Millisecond {
			// the call ran into the status protocol's 3 s client timeout (the agent was not scheduled in
			// time); the answer then rests on the persisted history, by design (as in C08)
			bump(out, "call_hit_client_timeout")
			defRunning, anyAlive = false, true
		}
		// a start accepted shortly before whose process has not been spawned yet also counts as "maybe"
		pending := false
		for _, p := range obs {
			if p != o && p.act.Kind == "start" && p.act.Dag == a.Dag && !p.act.BadDag && p.resp.ok() && p.ret < o.inv {
				spawned := false
				for _, cp := range agentsOf(d) {
					if s := spawnSeq[cp.proc.Pid]; s > p.inv && s < o.inv {
						spawned = true
					}
				}
				if !spawned {
					pending = true
				}
			}
		}
		defIdle := !anyAlive && !pending
		state := "undecided"
		switch {
		case defRunning:
			state = "running"
		case defIdle:
			state = "idle"
		}
		if a.BadDag {
			state = "no-such-dag"
		}
		bump(out, "action_"+a.Kind+"_"+state)
		// ---- what changed on disk (files of runs that were alive during the call may change by themselves)
		liveReq := map[string]bool{}
		for req, pid := range pidOfReq {
			if sp, ok := spawnSeq[pid]; ok && sp < o.ret && end(pid) > o.inv {
				liveReq[req] = true
			}
		}
		changed := diffFiles(o.before, o.after, liveReq)
		if len(changed) > 0 {
			// ... also a record whose writer lived during the call, whatever the record holds
			kept := changed[:0]
			for _, p := range changed {
				writerLived := false
				for pid := range datWriters[p] {
					if sp, ok := spawnSeq[pid]; ok && sp < o.ret && end(pid) > o.inv {
						writerLived = true
					}
				}
				if !writerLived {
					kept = append(kept, p)
				}
			}
			changed = kept
		}
		refusedMustHoldStill := func(why string) {
			if len(changed) > 0 {
				det := ""
				if len(changed) > 0 {
					b, a2 := o.before[changed[0]], o.after[changed[0]]
					det = fmt.Sprintf(" (%d bytes before, %d after; %s)", len(b), len(a2), diffHead(a2, b))
				}
				chk.viol("refused-action-changed-state", a.Kind+"/"+why, "%s (%s) was answered %d but changed %v%s", a.Kind, why, o.resp.Code, changed, det)
			}
			// ... nor what the server itself shows of the addressed run
			// (what is shown of a run recorded as running depends on whether an agent of the DAG answers at that
			// moment, so the two views are comparable only if no agent of the DAG lived between them)
			runAliveAroundViews := false
			for _, cp := range agentsOf(d) {
				if sp, ok := spawnSeq[cp.proc.Pid]; ok && sp < o.vret && end(cp.proc.Pid) > o.vinv {
					runAliveAroundViews = true
				}
			}
			if o.viewBefore != nil && o.viewAfter != nil && !runAliveAroundViews && statusVector(o.viewBefore) != statusVector(o.viewAfter) {
				chk.viol("refused-action-changed-view", a.Kind+"/"+why, "%s (%s) was answered %d %s, the record on disk is unchanged, but the server now shows run %s as %s (before: %s)", a.Kind, why, o.resp.Code, o.resp.Msg, short(o.reqID), statusVector(o.viewAfter), statusVector(o.viewBefore))
			}
		}
		malformed := ""
		switch {
		case a.BadDag:
			malformed = "unknown-dag"
		case a.Kind == "nil":
			malformed = "no-action"
		case a.Kind == "unknown":
			malformed = "unknown-action"
		case a.Kind == "rename" && a.Value == "":
			malformed = "rename-without-name"
		case a.Kind == "save":
			malformed = "invalid-definition"
		case (a.Kind == "retry" || strings.HasPrefix(a.Kind, "mark-")) && o.reqID == "":
			malformed = "missing-request-id"
		case strings.HasPrefix(a.Kind, "mark-") && o.reqUnknown:
			malformed = "unknown-request-id"
		case strings.HasPrefix(a.Kind, "mark-") && o.step == "":
			malformed = "missing-step"
		case strings.HasPrefix(a.Kind, "mark-") && a.StepSel == 1:
			malformed = "unknown-step"
		}
		if malformed != "" && a.Kind != "suspend" {
			bump(out, "malformed_"+malformed)
			if o.resp.ok() {
				chk.viol("malformed-action-accepted", a.Kind+"/"+malformed, "%s with %s was answered %d", a.Kind, malformed, o.resp.Code)
			}
			refusedMustHoldStill(malformed)
			continue
		}
		switch a.Kind {
		case "start":
			switch state {
			case "running":
				if o.resp.ok() {
					chk.viol("start-accepted-while-running", "response", "start of %q was answered %d while its run was in progress (socket listening throughout the call)", d.File, o.resp.Code)
				} else {
					refusedMustHoldStill("running")
				}
			case "idle":
				if !o.resp.ok() {
					chk.viol("start-refused-while-idle", "response", "start of %q was answered %d %s although no run of it was in progress", d.File, o.resp.Code, o.resp.Msg)
				}
			}
			if o.resp.ok() && o.start != nil {
				bump(out, "accepted_start_spawned")
				starts := []*cliProc{o.start}
				// the children of that process see the given parameters
				nChild := 0
				for _, r := range cw.truth.Runs {
					if r.AgentPid != starts[0].proc.Pid {
						continue
					}
					nChild++
					for i, it := range a.Params {
						if it.Name == "" {
							if got := r.Env[fmt.Sprint(i+1)]; got != it.Value {
								chk.viol("start-params-changed", paramShape(a.Params), "start with params %s: step %s saw $%d = %q, expected %q (argv of the start: %q)", o.rendered, r.Name, i+1, got, it.Value, starts[0].args)
							}
						} else if got := r.Env[it.Name]; got != it.Value {
							chk.viol("start-params-changed", paramShape(a.Params), "start with params %s: step %s saw $%s = %q, expected %q (argv of the start: %q)", o.rendered, r.Name, it.Name, got, it.Value, starts[0].args)
						}
					}
				}
				if nChild > 0 && len(a.Params) > 0 {
					bump(out, "start_params_checked")
				}
			}
		case "stop":
			switch state {
			case "idle":
				if o.resp.ok() {
					chk.viol("stop-accepted-while-idle", "response", "stop of %q was answered %d although no run of it was in progress", d.File, o.resp.Code)
				}
				refusedMustHoldStill("idle")
			case "running":
				if o.resp.ok() {
					bump(out, "stop_accepted_while_running")
				}
			}
		case "retry":
			if !o.resp.ok() {
				// a refused retry may have run a retry process that failed; it must not have recorded or changed anything
				if len(changed) > 0 {
					chk.viol("refused-action-changed-state", "retry/refused", "retry of %s was answered %d but changed %v (runs in progress during the call: %v; %v)", short(o.reqID), o.resp.Code, changed, liveReq, pidOfReq)
				}
			} else {
				bump(out, "retry_accepted")
			}
		case "suspend":
			for _, c := range changed {
				if !strings.HasPrefix(c, flagDir+"/") {
					chk.viol("suspend-changed-other-state", "files", "suspend=%s of %q changed %v", a.Value, d.File, changed)
					break
				}
			}
		case "mark-success", "mark-failed":
			switch state {
			case "running":
				if o.resp.ok() {
					chk.viol("edit-accepted-while-running", reqSelName(a.ReqSel), "%s of step %s in run %s of %q was answered %d while a run of it was in progress", a.Kind, o.step, short(o.reqID), d.File, o.resp.Code)
				} else {
					refusedMustHoldStill("running")
				}
			default:
				if !o.resp.ok() {
					if o.diskFaults > 0 {
						bump(out, "edit_refused_after_write_fault")
					}
					if state == "idle" && o.diskFaults == 0 {
						chk.viol("edit-refused-while-idle", reqSelName(a.ReqSel), "%s of step %s in run %s of %q was answered %d %s although no run was in progress", a.Kind, o.step, short(o.reqID), d.File, o.resp.Code, o.resp.Msg)
					}
					refusedMustHoldStill(state)
					break
				}
				bump(out, "edit_accepted")
				checkEdit(chk, o, d, liveReq)
			}
		}
	}
	out.NonTrivial = len(obs) >= 3 && len(cw.procs) > 0
	return out
}

func short(id string) string {
	if len(id) > 8 {
		return id[:8]
	}
	return id
}

func reqSelName(s int) string {
	return []string{"latest-run", "older-run", "bogus", "missing", "other-dag"}[s]
}

func isServerChild(cw *cliWorld, cp *cliProc) bool {
	p := cw.w.ProcByPid(cp.proc.PPid)
	return p != nil && p.Name == "server"
}

// pickReqID chooses the request id an action addresses from what is recorded right now.
func pickReqID(w *simrt.World, sc *apiScenario, a apiAction) (string, bool) {
	runsOf := func(d *DagSpec) []string {
		type rec struct{ id, file string }
		var rs []rec
		for p, content := range fsOf(w).Dump(dataDir) {
			if !strings.HasSuffix(p, ".dat") || !strings.Contains(p, "/"+d.File+"-") {
				continue
			}
			for _, ln := range strings.Split(content, "\n") {
				if st, err := model.StatusFromJSON(ln); err == nil && st.RequestID != "" {
					rs = append(rs, rec{st.RequestID, p})
					break
				}
			}
		}
		sort.Slice(rs, func(i, j int) bool { return rs[i].file < rs[j].file })
		var ids []string
		for _, r := range rs {
			ids = append(ids, r.id)
		}
		return ids
	}
	d := sc.Dags[a.Dag]
	switch a.ReqSel {
	case 0, 1:
		ids := runsOf(d)
		if len(ids) == 0 {
			return "00000000-0000-4000-8000-000000000000", true
		}
		if a.ReqSel == 0 || len(ids) == 1 {
			return ids[len(ids)-1], false
		}
		return ids[(a.StepSel+a.WaitMs)%(len(ids)-1)], false
	case 2:
		return "deadbeef-0000-4000-8000-000000000000", true
	case 3:
		return "", true
	default:
		for _, o := range sc.Dags {
			if o != d {
				if ids := runsOf(o); len(ids) > 0 {
					return ids[len(ids)-1], true
				}
			}
		}
		return "deadbeef-0000-4000-8000-000000000001", true
	}
}

// diffFiles lists the files that differ between two dumps, ignoring the history files of live runs.
func diffFiles(before, after map[string]string, liveReq map[string]bool) []string {
	// a record file carries the first 8 characters of its run's request id in its name (a dump taken
	// while the agent is writing may hold a partial line, so the content is not used for this)
	isLive := func(p string) bool {
		for req := range liveReq {
			if len(req) >= 8 && strings.Contains(p, "."+req[:8]) {
				return true
			}
		}
		return false
	}
	var out []string
	for p, b := range before {
		a, ok := after[p]
		if (ok && a == b) || isLive(p) {
			continue
		}
		if !ok && sameRunInTwin(p, b, after) {
			// the left-over original of a compaction that a crash interrupted was removed: the run's record
			// is where it was, in the compacted twin, with the same latest status
			continue
		}
		out = append(out, p)
	}
	for p, a := range after {
		if _, ok := before[p]; !ok && !isLive(p) && a != "" {
			out = append(out, p)
		}
	}
	sort.Strings(out)
	return out
}

// sameRunInTwin: p (content b) is the original record file of a run whose compacted twin exists afterwards
// and shows the same latest status.
func sameRunInTwin(p, b string, after map[string]string) bool {
	if !strings.HasSuffix(p, ".dat") || strings.HasSuffix(p, "_c.dat") {
		return false
	}
	twin, ok := after[strings.TrimSuffix(p, ".dat")+"_c.dat"]
	if !ok {
		return false
	}
	x, y := lastStatusOf(b), lastStatusOf(twin)
	if x == nil || y == nil {
		return false
	}
	xj, err1 := json.Marshal(x)
	yj, err2 := json.Marshal(y)
	return err1 == nil && err2 == nil && string(xj) == string(yj)
}

func lastStatusOf(content string) *model.Status {
	var last *model.Status
	for _, ln := range strings.Split(content, "\n") {
		if st, err := model.StatusFromJSON(ln); err == nil {
			last = st
		}
	}
	return last
}

// checkEdit: an accepted status edit changes exactly the addressed step of the addressed run.
func checkEdit(chk *agentCheck, o *apiObs, d *DagSpec, liveReq map[string]bool) {
	want := "finished"
	if o.act.Kind == "mark-failed" {
		want = "failed"
	}
	touchedTarget := false
	// group by run (a compaction may rename the file of a run: compare by request id)
	type pair struct {
		b, a   *model.Status
		nb, na int // number of record files of the run before / after
	}
	runs := map[string]*pair{}
	get := func(id string) *pair {
		if runs[id] == nil {
			runs[id] = &pair{}
		}
		return runs[id]
	}
	for _, p := range sortedKeys(o.before) {
		c := o.before[p]
		if strings.HasPrefix(p, dataDir+"/") && strings.HasSuffix(p, ".dat") {
			if st := lastStatusOf(c); st != nil {
				get(st.RequestID).b = st
				get(st.RequestID).nb++
			}
		} else if a, ok := o.after[p]; !ok || a != c {
			chk.viol("edit-changed-other-state", "file", "%s of step %s changed %s", o.act.Kind, o.step, p)
		}
	}
	for _, p := range sortedKeys(o.after) {
		c := o.after[p]
		if strings.HasPrefix(p, dataDir+"/") && strings.HasSuffix(p, ".dat") {
			if st := lastStatusOf(c); st != nil {
				get(st.RequestID).a = st
				get(st.RequestID).na++
			}
		} else if _, ok := o.before[p]; !ok && c != "" {
			chk.viol("edit-changed-other-state", "new-file", "%s of step %s created %s", o.act.Kind, o.step, p)
		}
	}
	for id, pr := range runs {
		if liveReq[id] {
			if id == o.reqID {
				touchedTarget = true // the addressed run was in progress during the call: its file changes by itself
			}
			continue
		}
		if pr.na > 1 || pr.nb > 1 {
			if pr.nb <= 1 {
				// the call itself split a finished run's record in two (x.dat next to its compacted x_c.dat):
				// readers and later edits may then use different files
				chk.viol("run-record-split", "twin-files", "%s of step %s: run %s has %d record files before and %d after the call", o.act.Kind, o.step, short(id), pr.nb, pr.na)
			} else if id == o.reqID {
				// two record files left behind by an agent that was killed inside its end-of-run compaction (both
				// hold the final status; C07's subject). The edit is judged by what the API's own lookup of
				// the run shows before and after
				bump(chk.out, "edit_on_run_with_twin_files")
				if o.viewBefore == nil || o.viewAfter == nil {
					chk.viol("edit-target-unreadable", "twin-files-after-crash", "%s of run %s was answered 200 but the API's lookup of the run fails", o.act.Kind, short(id))
				} else {
					for i, nb := range o.viewBefore.Nodes {
						if i >= len(o.viewAfter.Nodes) {
							break
						}
						na := o.viewAfter.Nodes[i]
						if nb.Step.Name == o.step {
							if na.Status.String() != want {
								chk.viol("edit-not-applied", want+"/twin-files-after-crash", "%s of step %s in run %s was answered 200 but the API's lookup of the run still shows the step as %q", o.act.Kind, o.step, short(id), na.Status.String())
							}
						} else if nb.Status != na.Status || nb.Log != na.Log {
							chk.viol("edit-changed-other-step", na.Step.Name+"/twin-files-after-crash", "%s of step %s also changed step %s", o.act.Kind, o.step, na.Step.Name)
						}
					}
				}
			}
			if id == o.reqID {
				touchedTarget = true
			}
			continue
		}
		switch {
		case pr.b == nil && pr.a != nil:
			chk.viol("edit-created-run", "run", "%s created a record for run %s", o.act.Kind, short(id))
			continue
		case pr.a == nil:
			chk.viol("edit-removed-run", "run", "%s removed the record of run %s", o.act.Kind, short(id))
			continue
		}
		if id != o.reqID {
			if mustJSON(pr.b) != mustJSON(pr.a) {
				chk.viol("edit-changed-other-run", reqSelName(o.act.ReqSel), "%s addressed run %s but run %s changed: %s -> %s", o.act.Kind, short(o.reqID), short(id), statusVector(pr.b), statusVector(pr.a))
			}
			continue
		}
		touchedTarget = true
		if len(pr.a.Nodes) != len(pr.b.Nodes) {
			chk.viol("edit-changed-node-table", "count", "%s changed the number of steps of run %s", o.act.Kind, short(id))
			continue
		}
		for i, nb := range pr.b.Nodes {
			na := pr.a.Nodes[i]
			if nb.Step.Name == o.step {
				if na.Status.String() != want {
					chk.viol("edit-not-applied", want, "%s of step %s in run %s was answered 200 but the step is recorded %q", o.act.Kind, o.step, short(id), na.Status.String())
				}
				nb2, na2 := *nb, *na
				nb2.Status, nb2.StatusText, na2.Status, na2.StatusText = 0, "", 0, ""
				if mustJSON(&nb2) != mustJSON(&na2) {
					chk.viol("edit-changed-more-than-status", "addressed-step", "%s of step %s changed more than its status: %s -> %s", o.act.Kind, o.step, mustJSON(nb), mustJSON(na))
				}
				continue
			}
			if mustJSON(nb) != mustJSON(na) {
				chk.viol("edit-changed-other-step", na.Step.Name, "%s of step %s in run %s also changed step %s: %s/%s -> %s/%s", o.act.Kind, o.step, short(id), nb.Step.Name, nb.Status.String(), nb.Log, na.Status.String(), na.Log)
			}
		}
		// everything else of the run: unchanged, apart from running -> failed of a dead run
		b2, a2 := *pr.b, *pr.a
		b2.Nodes, a2.Nodes = nil, nil
		if b2.Status.String() == "running" && a2.Status.String() == "failed" {
			b2.Status, b2.StatusText = a2.Status, a2.StatusText
		}
		if mustJSON(&b2) != mustJSON(&a2) {
			chk.viol("edit-changed-run-fields", "run", "%s of step %s changed other fields of run %s: %s -> %s", o.act.Kind, o.step, short(id), mustJSON(&b2), mustJSON(&a2))
		}
	}
	if !touchedTarget {
		chk.viol("edit-target-missing", reqSelName(o.act.ReqSel), "%s of run %s was answered 200 but no such run is recorded", o.act.Kind, short(o.reqID))
	}
}

func statusVector(st *model.Status) string {
	v := st.Status.String() + ":"
	for _, n := range st.Nodes {
		v += n.Step.Name + "=" + n.Status.String() + ","
	}
	return v
}

// recordDirPrefix: the path prefix of the directory that holds the records of d's runs.
func recordDirPrefix(d *DagSpec) string { return dataDir + "/" + d.File + "-" }
