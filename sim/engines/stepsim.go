package engines

import (
	"context"
	"fmt"
	"os"
	"path"
	"sort"
	"strings"
	"syscall"
	"testing"
	"time"

	"github.com/ErdemOzgen/blackdagger/internal/agent"
	"github.com/ErdemOzgen/blackdagger/internal/client"
	"github.com/ErdemOzgen/blackdagger/internal/dag"
	dagsched "github.com/ErdemOzgen/blackdagger/internal/dag/scheduler"
	"github.com/ErdemOzgen/blackdagger/internal/logger"
	dsclient "github.com/ErdemOzgen/blackdagger/internal/persistence/client"
	"github.com/ErdemOzgen/blackdagger/internal/persistence/model"
	"github.com/ErdemOzgen/blackdagger/internal/verifsim/simexec"
	"github.com/ErdemOzgen/blackdagger/internal/verifsim/simrt"
	"github.com/ErdemOzgen/blackdagger/internal/verifsim/simsignal"
	"github.com/google/uuid"
)

const (
	dagsDir = "/sim/dags"
	dataDir = "/sim/data"
	logsDir = "/sim/logs"
	flagDir = "/sim/suspend"
	workDir = "/sim/work"
)

// SchedCfg is the swarm configuration of one run.
type SchedCfg struct {
	Strategy   string `json:"strategy"`
	SwitchDen  int    `json:"switchDen"`
	LockYield  int    `json:"lockYield"`
	StallPerM  int    `json:"stallPerMille"`
	LatScale   int    `json:"latScale"`
	PCTDepth   int    `json:"pctDepth,omitempty"`
}

func drawSchedCfg(tp *simrt.Tape, allowStalls bool) (SchedCfg, simrt.Config) {
	sc := SchedCfg{}
	cfg := simrt.Config{Tape: tp}
	switch tp.Draw(simrt.SGen, 4) {
	case 0:
		sc.Strategy = "sticky"
		cfg.SwitchNum, cfg.SwitchDen = 1, 10
	case 1:
		sc.Strategy = "random"
		cfg.SwitchNum, cfg.SwitchDen = 1, 1
	case 2:
		sc.Strategy = "mixed"
		cfg.SwitchNum, cfg.SwitchDen = 1, 3
	case 3:
		sc.Strategy = "pct"
		cfg.PCTDepth = 1 + tp.Draw(simrt.SGen, 3)
		cfg.PCTHorizon = 1500
		sc.PCTDepth = cfg.PCTDepth
	}
	sc.SwitchDen = cfg.SwitchDen
	sc.LockYield = pick(tp, 0, 5, 30, 100)
	cfg.LockYieldNum = sc.LockYield
	if allowStalls {
		sc.StallPerM = pick(tp, 0, 0, 2, 10, 40)
	}
	cfg.PreemptDelayNum = sc.StallPerM
	sc.LatScale = pick(tp, 0, 1, 1, 3)
	cfg.LatencyScale = sc.LatScale
	return sc, cfg
}

// ---------------------------------------------------------------------------
// DAG generation

type stepGenOpts struct {
	maxSteps    int
	allowRetry  bool
	allowPre    bool
	allowRepeat bool
	longSteps   bool
	sigMix      bool
	handlers    bool
	outputs     bool // some steps capture a (small) output variable
}

var durTable = []int{0, 0, 1, 20, 50, 99, 100, 101, 150, 199, 200, 201, 250, 400, 1000}

func genDag(tp *simrt.Tape, o stepGenOpts) *DagSpec {
	n := 1 + tp.Draw(simrt.SGen, o.maxSteps)
	d := &DagSpec{File: "wf"}
	names := make([]string, n)
	for i := range names {
		names[i] = fmt.Sprintf("s%d", i)
	}
	// topological order is index order; declaration order is shuffled afterwards
	steps := make([]StepSpec, n)
	for i := 0; i < n; i++ {
		s := StepSpec{Name: names[i], RetryLimit: -1}
		if i > 0 {
			shape := tp.Draw(simrt.SGen, 5)
			switch shape {
			case 0: // independent
			case 1: // chain
				s.Depends = []string{names[i-1]}
			default:
				for j := 0; j < i; j++ {
					if chance(tp, 2, 5) {
						s.Depends = append(s.Depends, names[j])
					}
				}
			}
		}
		s.ContFail = chance(tp, 1, 4)
		s.ContSkip = chance(tp, 1, 4)
		if o.allowPre && chance(tp, 1, 5) {
			s.Precond = 1 + tp.Draw(simrt.SGen, 2)
			s.PrecondExtra = tp.Draw(simrt.SGen, 3) // sometimes a second condition (always met) after or before it
		}
		// outcome script
		switch tp.Draw(simrt.SGen, 6) {
		case 0:
			s.FailFirst = -1
		case 1:
			s.FailFirst = 1 + tp.Draw(simrt.SGen, 3)
		default:
			s.FailFirst = 0
		}
		if o.allowRetry && chance(tp, 2, 5) {
			s.RetryLimit = tp.Draw(simrt.SGen, 4)
			s.RetryInterval = pick(tp, 0, 0, 1, 2)
		}
		na := 1 + tp.Draw(simrt.SGen, 3)
		for a := 0; a < na; a++ {
			if o.longSteps {
				s.DurMs = append(s.DurMs, pick(tp, 50, 300, 1000, 3000, 8000, 30000))
			} else {
				s.DurMs = append(s.DurMs, durTable[tp.Draw(simrt.SGen, len(durTable))])
			}
		}
		if o.sigMix {
			s.OnTerm = pick(tp, "exit", "exit", "delay", "ignore")
			if s.OnTerm == "delay" {
				s.ExitDelayMs = pick(tp, 10, 500, 2500, 6000)
			}
			if chance(tp, 1, 4) {
				s.SignalOnStop = pick(tp, "SIGINT", "SIGUSR1", "SIGHUP")
			}
		}
		if o.outputs && chance(tp, 1, 5) {
			// output capture changes how a step's result travels (pipe, reader goroutine, close): its
			// exit status must still decide its state
			s.Output = "OUT_" + names[i]
			s.OutText = "v-" + names[i] + "\n"
		}
		if o.allowRepeat && chance(tp, 1, 6) {
			s.Repeat = true
			s.RepeatSec = pick(tp, 0, 1, 2)
			s.DurMs = []int{pick(tp, 50, 300, 900)}
			s.FailFirst = 0
			s.RetryLimit = -1
		}
		if o.sigMix && !s.Repeat && chance(tp, 1, 8) {
			// the command exits at once but leaves a background process in its group that holds its output open
			// (a repeating step is not signalled on stop, so it is left out here)
			s.BgMs = pick(tp, 20000, 45000)
			s.DurMs = []int{pick(tp, 0, 50, 4000, 9000)} // the command itself exits at once, or stays around with its child
			s.OnTerm, s.FailFirst, s.RetryLimit = "exit", 0, -1
		}
		steps[i] = s
	}
	// shuffle declaration order
	for i := n - 1; i > 0; i-- {
		j := tp.Draw(simrt.SGen, i+1)
		steps[i], steps[j] = steps[j], steps[i]
	}
	d.Steps = steps
	d.MaxActiveRuns = pick(tp, 0, 0, 1, 2, 3, n+1)
	d.DelaySec = pick(tp, 0, 0, 0, 1)
	if o.handlers {
		d.Handlers = map[string]*HandlerSpec{}
		for _, k := range []string{"success", "failure", "cancel", "exit"} {
			if chance(tp, 1, 2) {
				d.Handlers[k] = &HandlerSpec{Fail: chance(tp, 1, 4), DurMs: pick(tp, 0, 10, 150)}
			}
		}
	}
	return d
}

// ---------------------------------------------------------------------------
// one agent run in a world

type agentRun struct {
	spec     *DagSpec
	proc     *simrt.Proc
	agt      *agent.Agent
	reqID    string
	runErr   error
	loadErr  error
	started  bool
	dry      bool
}

func setupDirs(w *simrt.World) {
	f := fsOf(w)
	for _, d := range []string{dagsDir, dataDir, logsDir, flagDir, workDir, "/tmp"} {
		f.MkdirAllDirect(d)
	}
}

const baseConfigPath = "/sim/base/config.yaml"

// missingDirPrefix + step name: the working directory of a step that has none (iofault variant).
const missingDirPrefix = "/sim/nodir/"

// stopForgottenAfter: no injected stall or latency keeps an acknowledged stop from taking effect for this long.
const stopForgottenAfter = 20 * time.Second

func dagPath(spec *DagSpec) string { return path.Join(dagsDir, spec.File+".yaml") }

func seedIDs(tp *simrt.Tape) {
	// Request ids are a pure function of the run's seed, not of recorded draws: the shrinker
	// zeroes draws, and two runs with the same "random" id is a situation uuid rules out.
	uuid.SetRand(&idReader{state: tp.Seed*0x9e3779b97f4a7c15 + 0x1234567})
}

type idReader struct{ state uint64 }

func (r *idReader) Read(b []byte) (int, error) {
	for i := range b {
		// splitmix64
		r.state += 0x9e3779b97f4a7c15
		z := r.state
		z = (z ^ (z >> 30)) * 0xbf58476d1ce4e5b9
		z = (z ^ (z >> 27)) * 0x94d049bb133111eb
		z ^= z >> 31
		b[i] = byte(z)
	}
	return len(b), nil
}

func baseEnv(extra []string) []string {
	env := []string{"HOME=/root", "PATH=/sim/bin:/bin:/usr/bin"}
	return append(env, extra...)
}

// spawnAgent starts an agent process the way cmd/start.go does, but built by
// the harness so that it holds the *agent.Agent for observation.
func spawnAgent(w *simrt.World, spec *DagSpec, params string, dry bool, extraEnv []string) *agentRun {
	ar := &agentRun{spec: spec, dry: dry}
	env := baseEnv(append(spec.CondEnv(), extraEnv...))
	ar.proc = w.Spawn(simrt.CurProc(), "agent", []string{"blackdagger", "start", dagPath(spec)}, env, workDir, true, func(p *simrt.Proc) int {
		base := ""
		if spec.BaseLimit {
			base = baseConfigPath
		}
		wf, err := dag.Load(base, dagPath(spec), params)
		if err != nil {
			ar.loadErr = err
			return 3
		}
		id, _ := uuid.NewRandom()
		ar.reqID = id.String()
		logFile, err := logger.OpenLogFile(logger.LogFileConfig{Prefix: "start_", LogDir: logsDir, DAGLogDir: wf.LogDir, DAGName: wf.Name, RequestID: ar.reqID})
		if err != nil {
			ar.loadErr = err
			return 3
		}
		defer logFile.Close()
		lg := logger.NewLogger(logger.NewLoggerArgs{Format: "text", LogFile: logFile, Quiet: true})
		ds := dsclient.NewDataStores(dagsDir, dataDir, flagDir, dsclient.DataStoreOptions{LatestStatusToday: true})
		cli := client.New(ds, "/sim/bin/blackdagger", workDir, lg)
		ar.agt = agent.New(ar.reqID, wf, lg, path.Dir(logFile.Name()), logFile.Name(), cli, ds, &agent.Options{Dry: dry})
		// same as cmd/signal.go listenSignals
		sigc := make(chan os.Signal, 10)
		ctx := context.Background()
		simrt.Go(func() {
			simsignal.Notify(sigc, syscall.SIGINT, syscall.SIGTERM)
			simrt.Yield()
			select {
			case sig := <-sigc:
				simrt.Woke()
				ar.agt.Signal(sig)
			case <-simrt.Dead():
				simrt.Die()
			}
		})
		ar.started = true
		if err := ar.agt.Run(ctx); err != nil {
			ar.runErr = err
			return 1
		}
		return 0
	})
	return ar
}

// persistedStatus returns the last status line of the history file of reqID.
func persistedStatus(w *simrt.World, reqID string) (*model.Status, string) {
	dump := fsOf(w).Dump(dataDir)
	var files []string
	for p := range dump {
		if strings.HasSuffix(p, ".dat") && (reqID == "" || strings.Contains(p, reqID[:8])) {
			files = append(files, p)
		}
	}
	sort.Strings(files)
	var last *model.Status
	var lastFile string
	for _, f := range files {
		lines := strings.Split(dump[f], "\n")
		for _, ln := range lines {
			if strings.TrimSpace(ln) == "" {
				continue
			}
			if st, err := model.StatusFromJSON(ln); err == nil {
				last = st
				lastFile = f
			}
		}
	}
	return last, lastFile
}

// ---------------------------------------------------------------------------
// reference semantics (RunSemantics)

type expect struct {
	attempts int
	label    string // finished failed skipped | blocked
	blockedC bool   // may be canceled
	blockedS bool   // may be skipped
}

func kFail(s *StepSpec) int {
	if s.FailFirst < 0 {
		return 1 << 20
	}
	return s.FailFirst
}

func ownOutcome(s *StepSpec) (attempts int, label string) {
	limit := 0
	if s.RetryLimit > 0 {
		limit = s.RetryLimit
	}
	k := kFail(s)
	if k <= limit {
		return 1 + k, "finished"
	}
	return 1 + limit, "failed"
}

func permits(dep *StepSpec, label string) bool {
	switch label {
	case "finished":
		return true
	case "failed":
		return dep.ContFail
	case "skipped":
		return dep.ContSkip
	}
	return false
}

// ---------------------------------------------------------------------------
// the engine

type stepScenario struct {
	Variant string    `json:"variant"`
	Sched   SchedCfg  `json:"sched"`
	Dag     *DagSpec  `json:"dag"`
	StopAt  int       `json:"stopAtStep,omitempty"`
	StopOnRetrySetup bool `json:"stopOnRetrySetup,omitempty"` // alternatively: the stop is released when the agent opens the log file of a step's second attempt (the retry is being set up)
	StopAtMs int      `json:"stopAtMs,omitempty"` // alternatively: the stop is issued at this fake time (lands inside sleeps: launch delay, retry and repeat intervals, the 100 ms pause)
	StopVia string    `json:"stopVia,omitempty"`
	SlowHistory bool  `json:"slowHistory,omitempty"`
	BaseCfgFault bool `json:"baseCfgFault,omitempty"`
	StartOffsetMs int `json:"startOffsetMs,omitempty"` // the run starts this far into a wall-clock second
	GenerousTimeout bool `json:"generousTimeout,omitempty"` // the DAG has a timeout that the run does not reach
	IOFault *ioFaultCfg `json:"ioFault,omitempty"`
	YAML    string    `json:"yaml,omitempty"`
}

func init() {
	register("stepsim", stepsim)
	for _, p := range []string{"C01", "C02", "C03", "C04", "C15"} {
		PropEngines[p] = struct {
			Engine   string
			Variants []string
		}{"stepsim", []string{"sched"}}
	}
	e := PropEngines["C03"]
	e.Variants = []string{"sched", "sched", "sched", "dry", "stop", "timeout", "iofault"}
	PropEngines["C03"] = e
	e = PropEngines["C04"]
	e.Variants = []string{"sched", "stop", "precond", "iofault"}
	PropEngines["C04"] = e
	e = PropEngines["C01"]
	e.Variants = []string{"sched", "sched", "iofault"}
	PropEngines["C01"] = e
	e = PropEngines["C02"]
	e.Variants = []string{"sched", "sched", "iofault"}
	PropEngines["C02"] = e
	e = PropEngines["C15"]
	e.Variants = []string{"sched", "sched", "sched", "iofault"}
	PropEngines["C15"] = e
	PropEngines["C05"] = struct {
		Engine   string
		Variants []string
	}{"stepsim", []string{"stop5", "stop5", "stop5", "timeout"}}
	PropEngines["C12"] = struct {
		Engine   string
		Variants []string
	}{"stepsim", []string{"log"}}
}

func stepsim(t *testing.T, tp *simrt.Tape, opts RunOpts) *Outcome {
	out := &Outcome{}
	sc := &stepScenario{Variant: opts.Variant}
	if sc.Variant == "" {
		sc.Variant = "sched"
	}
	schedCfg, cfg := drawSchedCfg(tp, true)
	if sc.Variant == "log" && cfg.PreemptDelayNum > 2 {
		// this property is about bytes, not about stretched windows: keep simulated time in check
		cfg.PreemptDelayNum = 2
		schedCfg.StallPerM = 2
	}
	if sc.Variant == "timeout" {
		// the bound after a timeout is a liveness statement: no injected stalls or slow ops in this variant
		cfg.PreemptDelayNum, cfg.LatencyScale = 0, 0
		schedCfg.StallPerM, schedCfg.LatScale = 0, 0
	}
	if sc.Variant == "stop5" {
		// the agent re-sends the stop signal every 5 s; a thread that is descheduled for longer than that
		// inside the stop path is a different fault from "the stop arrives at any instant"
		cfg.MaxStall = 2 * time.Second
	}
	sc.Sched = schedCfg
	cfg.TraceOps = opts.Trace
	cfg.MaxFakeTime = 3 * time.Hour
	cfg.MaxSteps = 1_500_000
	g := stepGenOpts{maxSteps: 8, allowRetry: true, allowPre: true, handlers: true, outputs: true}
	if opts.Thorough {
		g.maxSteps = 12
	}
	switch sc.Variant {
	case "stop5", "timeout":
		g = stepGenOpts{maxSteps: 5, allowRetry: true, allowRepeat: sc.Variant == "stop5", longSteps: true, sigMix: true, handlers: true}
		if opts.Thorough {
			g.maxSteps = 7
		}
	}
	if sc.Variant == "log" {
		sc.Dag = genLogDag(tp, opts.Thorough)
	} else {
		sc.Dag = genDag(tp, g)
	}
	switch sc.Variant {
	case "stop":
		sc.StopAt = 1 + tp.Draw(simrt.SGen, 2500)
		sc.StopVia = pick(tp, "socket", "sigterm")
		// a stopped run must be able to stop: cooperative children only here (C05 has the others)
	case "stop5":
		sc.StopAt = 1 + tp.Draw(simrt.SGen, 6000)
		sc.StopVia = pick(tp, "socket", "socket", "sigterm")
		sc.Dag.MaxCleanUpSec = pick(tp, 1, 2, 5, 20)
	case "timeout":
		sc.Dag.TimeoutSec = pick(tp, 1, 2, 5)
		sc.Dag.MaxCleanUpSec = pick(tp, 1, 5)
	case "precond":
		sc.Dag.DagPrecond = 1 + tp.Draw(simrt.SGen, 2)
	case "log":
		// a quarter of the runs are stopped at a seeded step (e.g. during output or during a retry interval)
		if chance(tp, 1, 4) {
			sc.StopAt = 1 + tp.Draw(simrt.SGen, 3000)
			sc.StopVia = "socket"
			for i := range sc.Dag.Steps {
				if sc.Dag.Steps[i].RetryLimit > 0 && chance(tp, 1, 2) {
					sc.Dag.Steps[i].RetryInterval = 1 + tp.Draw(simrt.SGen, 2)
				}
			}
		}
	}
	if sc.Variant == "log" && sc.StopAt > 0 && chance(tp, 1, 3) {
		sc.StopOnRetrySetup = true
		sc.StopAt = 1 << 30
	}
	if sc.StopAt > 0 && !sc.StopOnRetrySetup && chance(tp, 1, 2) {
		// scheduler steps are dense while something happens and sparse while everything sleeps; a stop
		// drawn by fake time instead lands inside the sleeps
		sc.StopAtMs = pick(tp, 30, 99, 101, 180, 450, 950, 1050, 1600, 2100, 3300, 5200)
		if sc.Dag.DelaySec > 0 {
			sc.StopAtMs = pick(tp, 200, 700, 1001, 1300, 1900, 2400, 3100, 4500)
		}
	}
	if sc.Variant == "sched" && sc.Dag.MaxActiveRuns > 0 && chance(tp, 1, 4) {
		// the limit is declared for the whole installation (base configuration); in half of these runs that
		// file cannot be read when the run starts: the run must then be refused, not run without a limit
		sc.Dag.BaseLimit = true
		sc.BaseCfgFault = chance(tp, 1, 2)
	}
	if sc.Variant == "sched" || sc.Variant == "iofault" {
		sc.StartOffsetMs = pick(tp, 0, 0, 137, 500, 870, 950, 999)
	}
	if sc.Variant == "sched" && !sc.Dag.BaseLimit && chance(tp, 1, 12) {
		// motif: a DAG with a timeout that is not reached, started late in a wall-clock second, with a step that
		// fails in the last second before the deadline and a dependent that continues on failure
		sc.StartOffsetMs = pick(tp, 700, 870, 950)
		sc.Dag = &DagSpec{File: "wf", TimeoutSec: 2, Steps: []StepSpec{
			{Name: "s0", RetryLimit: -1, FailFirst: -1, ContFail: true, DurMs: []int{pick(tp, 1250, 1500, 1700)}},
			{Name: "s1", RetryLimit: -1, Depends: []string{"s0"}, DurMs: []int{pick(tp, 0, 50)}},
			{Name: "s2", RetryLimit: -1, DurMs: []int{pick(tp, 0, 300)}},
		}}
		sc.GenerousTimeout = true
	}
	if sc.Variant == "iofault" {
		// a third of the steps carry a script (written to a temporary file before each attempt); retries wait
		// long enough for the polling loop to come round while a step waits for its next attempt
		for i := range sc.Dag.Steps {
			s := &sc.Dag.Steps[i]
			if chance(tp, 1, 3) {
				s.Script = "#!/bin/sh\n# " + strings.Repeat("x", pick(tp, 0, 10, 200, 5000)) + "\nrun " + s.Name + "\n"
			}
			if s.RetryLimit > 0 && chance(tp, 1, 2) {
				s.RetryInterval = pick(tp, 1, 1, 2)
			}
			if s.Output == "" && chance(tp, 1, 3) {
				// more captured outputs than in the plain batch: their pipe is one of the things that can fail
				s.Output = "OUT_" + s.Name
				s.OutText = "v-" + s.Name + "\n"
			}
			if s.Script == "" && s.Stdout == "" && s.Stderr == "" && s.RetryLimit > 0 && chance(tp, 1, 6) {
				// a working directory that does not exist: every attempt fails before a process is made, and
				// the step waits out its retry intervals without ever having run
				s.Dir = missingDirPrefix + s.Name
				s.RetryInterval = pick(tp, 1, 1, 2)
			}
		}
		sc.IOFault = drawIOFaultCfg(tp)
	}
	sc.YAML = sc.Dag.YAML()
	out.Sample = sc

	truth := NewTruth()
	truth.Behaviour = func(pc *simexec.ProcCtx, name string) *StepSpec { return sc.Dag.Step(name) }
	truth.Handler = func(pc *simexec.ProcCtx, name string) *HandlerSpec { return sc.Dag.Handlers[name] }

	var ar *agentRun
	var final *model.Status
	var stopIssuedSeq, stopDoneSeq uint64
	var cancelSeenSeq uint64
	var cancelSeenAt time.Duration
	var statusAtStop map[string]string
	agentExited := true
	var stopQ simrt.WaitQ
	stopReleased := false
	var mutBefore, mutAfter map[string]string

	cfg.OnStep = func(w *simrt.World) {
		if sc.StopAt > 0 && !stopReleased && w.Stats.Steps >= sc.StopAt {
			stopReleased = true
			simrt.Big.Lock()
			stopQ.Broadcast()
			simrt.Big.Unlock()
		}
		if cancelSeenSeq == 0 && ar != nil && ar.agt != nil {
			if s := ar.agt.VerifScheduler(); s != nil && s.VerifCanceled() {
				cancelSeenSeq = w.Seq() + 1
				cancelSeenAt = w.Now()
				if g := ar.agt.VerifGraph(); g != nil {
					statusAtStop = g.VerifNodeStatuses()
				}
				if sc.Variant == "stop5" {
					// liveness is measured once faults stop: no injected stalls or slow ops after the stop took effect
					w.Cfg.PreemptDelayNum = 0
					w.Cfg.LatencyScale = 0
				}
				w.Emit("cancel_flag_seen", "", "", 0, nil)
			}
		}
	}

	if sc.Variant == "sched" && chance(tp, 1, 4) {
		// fault "slow_op": some writes of the run's history record take 120-400 ms (a busy disk). The status
		// recorder then lags behind the scheduler's 100 ms poll, which is when hand-overs between a step's
		// attempts and the polling loop can overlap
		sc.SlowHistory = true
		cfg.FaultPlan = func(op *simrt.OpInfo) simrt.Fault {
			if op.Kind != "write" || !strings.HasSuffix(op.Path, ".dat") || !tp.Chance(simrt.SFault, 1, 3) {
				return simrt.Fault{}
			}
			op.Proc.W.CountFault("slow_op")
			return simrt.Fault{Kind: simrt.FSlow, Delay: time.Duration(pick(tp, 120, 250, 400)) * time.Millisecond}
		}
	}
	if sc.StopOnRetrySetup {
		logOpens := map[string]int{}
		cfg.OnOp = func(op *simrt.OpInfo) {
			if stopReleased || op.Kind != "open" || !strings.HasPrefix(op.Path, logsDir+"/") || !strings.HasSuffix(op.Path, ".log") {
				return
			}
			base := path.Base(op.Path)
			name := base[:strings.IndexByte(base, '.')]
			logOpens[name]++
			if logOpens[name] == 2 {
				stopReleased = true
				op.Proc.W.Probe("stop_released_at_retry_setup")
				simrt.Big.Lock()
				stopQ.Broadcast()
				simrt.Big.Unlock()
			}
		}
	}
	if sc.BaseCfgFault {
		prev := cfg.FaultPlan
		cfg.FaultPlan = func(op *simrt.OpInfo) simrt.Fault {
			if op.Path == baseConfigPath && (op.Kind == "open" || op.Kind == "read") {
				op.Proc.W.CountFault("base_config_unreadable")
				return simrt.Fault{Kind: simrt.FErr, Errno: syscall.EIO}
			}
			if prev != nil {
				return prev(op)
			}
			return simrt.Fault{}
		}
	}
	var ioTouched map[string]bool
	if sc.IOFault != nil {
		cfg.FaultPlan, ioTouched = ioFaultPlan(tp, sc.IOFault, func() int {
			if ar == nil || ar.proc == nil {
				return -1
			}
			return ar.proc.Pid
		})
	}
	res := simrt.Run(t, cfg, func(w *simrt.World) {
		seedIDs(tp)
		dagsched.VerifResetNodeIDs()
		setupDirs(w)
		simexec.Register(w, "/sim/bin/simstep", truth.StepProgram)
		curTruth = truth
		fsOf(w).PutFile(dagPath(sc.Dag), []byte(sc.YAML), 0o644)
		if sc.Dag.BaseLimit {
			fsOf(w).MkdirAllDirect("/sim/base")
			fsOf(w).PutFile(baseConfigPath, []byte(fmt.Sprintf("maxActiveRuns: %d\n", sc.Dag.MaxActiveRuns)), 0o644)
		}
		if sc.Variant == "dry" {
			mutBefore = fsOf(w).Dump(dataDir)
		}
		if sc.StartOffsetMs > 0 {
			simrt.Sleep(time.Duration(sc.StartOffsetMs) * time.Millisecond)
		}
		ar = spawnAgent(w, sc.Dag, "", sc.Variant == "dry", nil)
		if sc.StopAt > 0 {
			via := sc.StopVia
			w.Spawn(simrt.CurProc(), "stopper", []string{"stopper"}, baseEnv(nil), workDir, true, func(p *simrt.Proc) int {
				g := simrt.CurG()
				if sc.StopAtMs > 0 {
					simrt.Sleep(time.Duration(sc.StopAtMs) * time.Millisecond)
					w.Probe("stop_at_fake_time")
				} else {
					simrt.Big.Lock()
					if !stopReleased {
						stopQ.Wait(g, time.Time{})
					} else {
						simrt.Big.Unlock()
					}
				}
				if !ar.proc.Alive() {
					return 0
				}
				// like an operator who presses stop until it is acknowledged
				for try := 0; ; try++ {
					if !ar.proc.Alive() {
						return 0
					}
					seq := w.Emit("stop_issued", via, "", int64(try), nil)
					var err error
					if via == "socket" {
						wf := &dag.DAG{Location: dagPath(sc.Dag)}
						cli := client.New(nil, "", "", logger.Default)
						err = cli.Stop(wf)
					} else {
						err = simsignal.Deliver(ar.proc, syscall.SIGTERM)
					}
					if err == nil {
						stopIssuedSeq = seq
						break
					}
					w.Emit("stop_failed", err.Error(), "", 0, nil)
					if try > 200 {
						return 1
					}
					simrt.Sleep(50 * time.Millisecond)
				}
				stopDoneSeq = w.Emit("stop_accepted", via, "", 0, nil)
				return 0
			})
		}
		agentExited = waitProcTimeout(ar.proc, 90*time.Minute)
		// let orphans finish (there should be none in a run that ended by itself)
		simrt.Sleep(50 * time.Millisecond)
		final, _ = persistedStatus(w, ar.reqID)
		if sc.Variant == "dry" {
			mutAfter = fsOf(w).Dump(dataDir)
		}
	})
	fillOutcome(out, res, opts)
	if len(res.Panics) > 0 {
		out.Violations = append(out.Violations, Violation{Prop: firstNonEmpty(opts.Prop, "C01"), Clause: "panic", Disc: panicDisc(res.Panics[0]), Msg: res.Panics[0]})
	}
	if out.Infra != "" {
		return out
	}
	truth.Finalize(res.Events)
	ctx := &stepCheck{sc: sc, ar: ar, truth: truth, final: final, res: res, out: out, prop: opts.Prop,
		stopIssuedSeq: stopIssuedSeq, stopDoneSeq: stopDoneSeq, cancelSeenSeq: cancelSeenSeq, cancelSeenAt: cancelSeenAt, agentExited: agentExited, statusAtStop: statusAtStop, mutBefore: mutBefore, mutAfter: mutAfter, ioTouched: ioTouched}
	ctx.check()
	return out
}

func waitProcTimeout(p *simrt.Proc, d time.Duration) bool {
	t := time.NewTimer(d)
	simrt.Yield()
	select {
	case <-p.DeadCh:
		simrt.Woke()
		t.Stop()
		return true
	case <-t.C:
		simrt.Woke()
		return false
	case <-simrt.Dead():
		simrt.Die()
	}
	return false
}

func firstNonEmpty(a, b string) string {
	if a != "" {
		return a
	}
	return b
}

func panicDisc(p string) string {
	// message (without addresses) plus the first two repository frames, so that
	// different crashes have different signatures
	i := strings.Index(p, "panic: ")
	s := p
	if i >= 0 {
		s = p[i+7:]
	}
	msg := s
	if j := strings.IndexByte(msg, '\n'); j >= 0 {
		msg = msg[:j]
	}
	if len(msg) > 60 {
		msg = msg[:60]
	}
	var frames []string
	for _, ln := range strings.Split(p, "\n") {
		if !strings.HasPrefix(ln, "github.com/ErdemOzgen/blackdagger/") || strings.Contains(ln, "/verifsim/") {
			continue
		}
		f := strings.TrimPrefix(ln, "github.com/ErdemOzgen/blackdagger/")
		if k := strings.IndexByte(f, '('); k > 0 && strings.HasSuffix(f, ")") {
			// strip the argument list of the frame line
			if q := strings.LastIndexByte(f, '('); q > 0 {
				f = f[:q]
			}
		}
		frames = append(frames, f)
		if len(frames) == 2 {
			break
		}
	}
	return msg + " @ " + strings.Join(frames, " < ")
}

type stepCheck struct {
	sc            *stepScenario
	ar            *agentRun
	truth         *Truth
	final         *model.Status
	res           *simrt.Result
	out           *Outcome
	prop          string
	stopIssuedSeq uint64
	stopDoneSeq   uint64
	cancelSeenSeq uint64
	cancelSeenAt  time.Duration
	agentExited   bool
	statusAtStop  map[string]string
	racedLaunch   bool
	mutBefore     map[string]string
	mutAfter      map[string]string
	ioTouched     map[string]bool
}

func (c *stepCheck) want(p string) bool { return c.prop == "" || c.prop == p }

func (c *stepCheck) viol(p, clause, disc, format string, a ...any) {
	if !c.want(p) {
		return
	}
	// (labels such as "not started" are part of some discriminators: no spaces in a signature)
	c.out.Violations = append(c.out.Violations, Violation{Prop: p, Clause: clause, Disc: strings.ReplaceAll(disc, " ", "-"), Msg: fmt.Sprintf(format, a...)})
}

func nodeLabel(n *model.Node) string { return n.Status.String() }

func (c *stepCheck) check() {
	d := c.sc.Dag
	stopped := c.stopIssuedSeq != 0 || c.cancelSeenSeq != 0
	hung := c.res.Aborted == "faketime" || c.res.Aborted == "steps" || !c.agentExited
	if c.sc.Variant == "stop5" || c.sc.Variant == "timeout" {
		if !hung {
			c.checkRetryCountsStopped()
		}
		c.checkStop(hung)
		return
	}
	if c.sc.Variant == "log" {
		c.checkLogs(hung)
		return
	}
	if c.sc.Variant == "iofault" {
		c.checkIOFault(hung)
		return
	}

	// ---- termination (C15: the limit never prevents completion; all: a run must end)
	if hung {
		c.out.Inconclusive = ""
		p := firstNonEmpty(c.prop, "C15")
		if p == "C15" || p == "C05" || p == "C03" || p == "C02" || p == "C01" || p == "C04" {
			c.viol(p, "no-termination", c.sc.Variant, "run did not end within %v of simulated time (steps=%d); live: %s", c.res.FakeTime, c.res.Steps, c.liveSummary())
		}
		return
	}
	if c.ar != nil && c.ar.proc != nil && c.ar.proc.Signaled != "" && c.ar.proc.Signaled != "teardown" {
		// the stop signal arrived before the agent had installed its handler: the
		// process simply died, which no property forbids
		bump(c.out, "agent_killed_by_early_signal")
		return
	}
	if c.ar == nil || !c.ar.started {
		if c.ar != nil && c.ar.loadErr != nil && c.sc.BaseCfgFault {
			bump(c.out, "run_refused_unreadable_base_config")
			return
		}
		if c.ar != nil && c.ar.loadErr != nil {
			c.out.Infra = "generated DAG rejected by loader: " + c.ar.loadErr.Error()
		}
		return
	}

	runsBy := map[string][]*StepRun{}
	for _, r := range c.truth.Runs {
		runsBy[r.Name] = append(runsBy[r.Name], r)
	}
	finalBy := map[string]*model.Node{}
	if c.final != nil {
		for _, n := range c.final.Nodes {
			finalBy[n.Step.Name] = n
		}
	}

	// ---- dry run (C03)
	if c.sc.Variant == "dry" {
		c.out.NonTrivial = true
		if len(c.truth.Runs) > 0 {
			c.viol("C03", "dry-run-executed", c.truth.Runs[0].Name, "dry-run executed %d commands (first: %v)", len(c.truth.Runs), c.truth.Runs[0].Argv)
		}
		if diff := diffDump(c.mutBefore, c.mutAfter); diff != "" {
			c.viol("C03", "dry-run-wrote-history", "data-dir", "dry-run changed the data directory: %s", diff)
		}
		return
	}

	// ---- DAG precondition (C04)
	if d.DagPrecond == 2 {
		c.out.NonTrivial = true
		if len(c.truth.Runs) > 0 {
			c.viol("C04", "dag-precondition-unmet-executed", c.truth.Runs[0].Name, "DAG precondition unmet but %d commands ran", len(c.truth.Runs))
		}
		if c.ar.proc.ExitCode == 0 {
			c.viol("C04", "dag-precondition-unmet-exit0", "exit", "DAG precondition unmet but the run reported success")
		}
		return
	}

	if c.final == nil && c.stopIssuedSeq != 0 && len(c.truth.Runs) == 0 && c.ar.proc.ExitCode != 0 {
		// the stop reached the agent before it had set the run up: nothing was started, nothing recorded,
		// and the process says so with a non-zero exit
		bump(c.out, "stopped_before_the_run_was_set_up")
		return
	}
	if c.final == nil {
		c.viol(firstNonEmpty(c.prop, "C04"), "no-final-status", "missing", "agent exited (code %d, err %v) without a persisted status", c.ar.proc.ExitCode, c.ar.runErr)
		return
	}

	// ---- C01: dependencies finished and permitting at every start
	depsOf := map[string][]string{}
	for i := range d.Steps {
		depsOf[d.Steps[i].Name] = d.Steps[i].Depends
	}
	for _, r := range c.truth.Runs {
		if strings.HasPrefix(r.Name, "on_") {
			continue
		}
		for _, dn := range depsOf[r.Name] {
			dep := d.Step(dn)
			druns := runsBy[dn]
			// no attempt of dep open at r.StartSeq, none starts later
			for _, dr := range druns {
				if dr.StartSeq < r.StartSeq && (dr.EndSeq == 0 || dr.EndSeq > r.StartSeq) {
					c.viol("C01", "dep-still-running", "overlap", "step %s (attempt %d) started at #%d while dependency %s attempt %d was still running (ended #%d)", r.Name, r.Attempt, r.StartSeq, dn, dr.Attempt, dr.EndSeq)
				}
				if dr.StartSeq > r.StartSeq {
					c.viol("C01", "dep-ran-later", "later-attempt", "step %s started at #%d but dependency %s attempt %d started later (#%d)", r.Name, r.StartSeq, dn, dr.Attempt, dr.StartSeq)
				}
			}
			if len(druns) == 0 {
				// dep never ran: only legal if dep is finally skipped and lets dependents continue
				fn := finalBy[dn]
				if fn == nil || nodeLabel(fn) != "skipped" || !dep.ContSkip {
					lbl := "?"
					if fn != nil {
						lbl = nodeLabel(fn)
					}
					c.viol("C01", "dep-never-ran", lbl, "step %s started although dependency %s never ran (final label %s, continueOn.skipped=%v)", r.Name, dn, lbl, dep.ContSkip)
				}
				continue
			}
			last := druns[len(druns)-1]
			for _, dr := range druns {
				if dr.StartSeq < r.StartSeq {
					last = dr
				}
			}
			if last.EndSeq != 0 && last.EndSeq < r.StartSeq {
				ok := last.Code == 0 && last.Signaled == ""
				if !ok {
					// failed attempt: must be the last allowed attempt and continueOn.failure
					_, lbl := ownOutcome(dep)
					nAtt, _ := ownOutcome(dep)
					if !(lbl == "failed" && dep.ContFail && last.Attempt == nAtt-1) {
						c.viol("C01", "dep-not-permitting", "failed-dep", "step %s started after dependency %s attempt %d exited %d (continueOn.failure=%v, attempts allowed %d)", r.Name, dn, last.Attempt, last.Code, dep.ContFail, nAtt)
					}
				}
			}
		}
	}

	// ---- C15: concurrency bound. A step is "executing" while an attempt's process
	// is open and, after a failed attempt that is retried, for the retry interval.
	// Points are (fake time, event seq) compared lexicographically.
	{
		type pt struct {
			t time.Duration
			s uint64
		}
		lessPt := func(a, b pt) bool { return a.t < b.t || (a.t == b.t && a.s < b.s) }
		type iv struct {
			s, e pt
			name string
		}
		var ivs []iv
		for name, rs := range runsBy {
			if strings.HasPrefix(name, "on_") {
				continue
			}
			spec := d.Step(name)
			for i, r := range rs {
				e := pt{r.EndAt, r.EndSeq}
				if r.EndSeq == 0 {
					e = pt{1 << 62, ^uint64(0)}
				} else if i+1 < len(rs) && spec != nil && spec.RetryInterval > 0 {
					e = pt{r.EndAt + time.Duration(spec.RetryInterval)*time.Second, 0}
				}
				ivs = append(ivs, iv{pt{r.StartAt, r.StartSeq}, e, name})
			}
		}
		maxc := 0
		var worst []string
		for _, a := range ivs {
			n := 0
			var names []string
			for _, b := range ivs {
				if !lessPt(a.s, b.s) && lessPt(a.s, b.e) { // b.s <= a.s < b.e
					n++
					names = append(names, b.name)
				}
			}
			if n > maxc {
				maxc = n
				worst = names
			}
		}
		if d.MaxActiveRuns > 0 && maxc > d.MaxActiveRuns {
			sort.Strings(worst)
			c.viol("C15", "limit-exceeded", fmt.Sprintf("over-by-%d", maxc-d.MaxActiveRuns), "maxActiveRuns=%d but %d steps were executing at once: %v", d.MaxActiveRuns, maxc, worst)
		}
		if maxc >= 2 {
			c.out.NonTrivial = true
			if d.MaxActiveRuns == 0 {
				bump(c.out, "unlimited_overlap")
			}
			if d.MaxActiveRuns > 0 && maxc == d.MaxActiveRuns {
				bump(c.out, "limit_reached")
			}
		}
	}
	if len(c.truth.Runs) >= 2 {
		c.out.NonTrivial = true
	}

	// ---- C03: never two open attempts of one step; counts
	for name, rs := range runsBy {
		for i, a := range rs {
			for _, b := range rs[i+1:] {
				if a.StartSeq < b.StartSeq && (a.EndSeq == 0 || a.EndSeq > b.StartSeq) {
					c.viol("C03", "double-launch", "overlap", "step %s: attempt %d started (#%d) while attempt %d was still running", name, b.Attempt, b.StartSeq, a.Attempt)
				}
			}
		}
	}

	timeoutInPlay := d.TimeoutSec > 0
	if timeoutInPlay && c.sc.GenerousTimeout {
		// the run ended well before its timeout: the timeout plays no part
		// (measured from the start of the agent process, which is before the scheduler starts counting; and
		// no step may have been signalled or killed)
		first := time.Duration(c.sc.StartOffsetMs) * time.Millisecond
		var last time.Duration
		cut := false
		for _, r := range c.truth.Runs {
			if r.EndSeq == 0 || r.Signaled != "" || len(r.Signals) > 0 {
				cut = true
			}
			if r.EndAt > last {
				last = r.EndAt
			}
		}
		for _, e := range c.res.Events {
			if e.Kind == "proc_exit" && c.ar != nil && c.ar.proc != nil && int(e.N) == c.ar.proc.Pid && e.At > last {
				last = e.At // the end of the run, not of its last step: a stalled worker may process a step's end late
			}
		}
		if !cut && len(c.truth.Runs) > 0 && last-first < time.Duration(d.TimeoutSec)*time.Second-100*time.Millisecond {
			timeoutInPlay = false
			bump(c.out, "timeout_configured_but_not_reached")
		}
	}
	if stopped || timeoutInPlay {
		c.checkRetryCountsStopped()
		c.checkOutcome(runsBy, finalBy, stopped)
		return
	}

	// ---- C02 / C03: local consistency of final labels and attempt counts (run not stopped)
	for i := range d.Steps {
		s := &d.Steps[i]
		fn := finalBy[s.Name]
		if fn == nil {
			c.viol("C02", "step-missing-in-status", "missing", "step %s missing from the final status", s.Name)
			continue
		}
		lbl := nodeLabel(fn)
		n := len(runsBy[s.Name])
		if lbl == "not started" || lbl == "running" {
			c.viol("C02", "non-terminal-label", lbl, "run ended but step %s is reported %q", s.Name, lbl)
			continue
		}
		allPermit, cancelBlock, skipBlock := true, false, false
		for _, dn := range s.Depends {
			df := finalBy[dn]
			if df == nil {
				continue
			}
			dl := nodeLabel(df)
			if !permits(d.Step(dn), dl) {
				allPermit = false
				switch dl {
				case "failed", "canceled":
					cancelBlock = true
				case "skipped":
					skipBlock = true
				}
			}
		}
		if allPermit {
			if s.Precond == 2 {
				if n != 0 {
					c.viol("C02", "precondition-unmet-executed", "ran", "step %s has an unmet precondition but ran %d times", s.Name, n)
				}
				if lbl != "skipped" {
					c.viol("C02", "precondition-unmet-label", lbl, "step %s has an unmet precondition but is reported %q", s.Name, lbl)
				}
				continue
			}
			wantN, wantL := ownOutcome(s)
			if n == 0 {
				c.viol("C02", "runnable-not-executed", lbl, "every dependency of step %s lets it proceed but it never ran (reported %q)", s.Name, lbl)
				c.viol("C03", "runnable-not-executed", lbl, "runnable step %s executed 0 times (reported %q)", s.Name, lbl)
				continue
			}
			if lbl != wantL {
				c.viol("C02", "wrong-label", wantL+"-as-"+lbl, "step %s should be %q by its own outcome script (failFirst=%d limit=%d) but is reported %q after %d attempts", s.Name, wantL, s.FailFirst, s.RetryLimit, lbl, n)
			}
			if n != wantN {
				disc := "too-few"
				if n > wantN {
					disc = "too-many"
				}
				c.viol("C03", "attempt-count", disc, "step %s executed %d times, expected %d (failFirst=%d retry limit=%d)", s.Name, n, wantN, s.FailFirst, s.RetryLimit)
			}
			if fn.RetryCount != n-1 {
				c.viol("C03", "retry-count-record", fmt.Sprintf("recorded-%d-made-%d", fn.RetryCount, n-1), "step %s: recorded retry count %d but %d extra attempts were made", s.Name, fn.RetryCount, n-1)
			}
		} else {
			if n != 0 {
				c.viol("C02", "blocked-step-executed", lbl, "step %s is downstream of a blocking dependency but ran %d times", s.Name, n)
				c.viol("C03", "non-runnable-executed", lbl, "non-runnable step %s executed %d times", s.Name, n)
			}
			ok := (lbl == "canceled" && cancelBlock) || (lbl == "skipped" && skipBlock)
			if !ok {
				c.viol("C02", "blocked-step-label", lbl, "step %s is blocked (cancel-type=%v skip-type=%v) but reported %q", s.Name, cancelBlock, skipBlock, lbl)
			}
		}
	}
	c.checkOutcome(runsBy, finalBy, false)
}

// checkRetryCountsStopped is C03 in a run that was stopped or timed out: attempts stay bounded and the
// recorded retry count still follows the attempts made; a retry that had been scheduled when the stop came,
// and was then never made, may or may not have been counted (the statement does not say).
func (c *stepCheck) checkRetryCountsStopped() {
	if !c.want("C03") || c.final == nil || c.ar == nil || !c.ar.started {
		return
	}
	d := c.sc.Dag
	finalBy := map[string]*model.Node{}
	for _, n := range c.final.Nodes {
		finalBy[n.Step.Name] = n
	}
	for i := range d.Steps {
		s := &d.Steps[i]
		fn, n := finalBy[s.Name], len(c.truth.RunsOf(0, s.Name))
		if fn == nil || n == 0 || s.Repeat {
			continue
		}
		bump(c.out, "retry_count_checked_in_stopped_run")
		limit := s.RetryLimit
		if limit < 0 {
			limit = 0
		}
		if n > limit+1 {
			c.viol("C03", "attempt-count", "too-many/stopped-run", "step %s executed %d times in a stopped run, its retry limit is %d", s.Name, n, limit)
		}
		if fn.RetryCount < n-1 || fn.RetryCount > n {
			c.viol("C03", "retry-count-record", fmt.Sprintf("stopped-run/recorded-%d-made-%d", fn.RetryCount, n-1), "step %s: recorded retry count %d but %d extra attempts were made (run stopped or timed out)", s.Name, fn.RetryCount, n-1)
		}
	}
}

func bump(o *Outcome, probe string) {
	if o.Probes == nil {
		o.Probes = map[string]int{}
	}
	o.Probes[probe]++
}

func diffDump(a, b map[string]string) string {
	var diffs []string
	for k, v := range b {
		if av, ok := a[k]; !ok {
			diffs = append(diffs, "+"+k)
		} else if av != v {
			diffs = append(diffs, "~"+k)
		}
	}
	for k := range a {
		if _, ok := b[k]; !ok {
			diffs = append(diffs, "-"+k)
		}
	}
	sort.Strings(diffs)
	return strings.Join(diffs, " ")
}

func (c *stepCheck) liveSummary() string {
	var open []string
	for _, r := range c.truth.Runs {
		if r.EndSeq == 0 {
			open = append(open, fmt.Sprintf("%s#%d", r.Name, r.Attempt))
		}
	}
	return strings.Join(open, ",")
}

// checkOutcome is C04: overall outcome and handlers.
func (c *stepCheck) checkOutcome(runsBy map[string][]*StepRun, finalBy map[string]*model.Node, stopped bool) {
	if !c.want("C04") {
		return
	}
	d := c.sc.Dag
	anyFailed, allOK := false, true
	for i := range d.Steps {
		fn := finalBy[d.Steps[i].Name]
		if fn == nil {
			allOK = false
			continue
		}
		switch nodeLabel(fn) {
		case "finished", "skipped":
		case "failed":
			anyFailed = true
			allOK = false
		default:
			allOK = false
		}
	}
	// what the step processes themselves say (a label that hides a failed command, or that calls a step
	// finished that never ran, must not decide the outcome)
	for i := range d.Steps {
		if fn := finalBy[d.Steps[i].Name]; fn != nil && nodeLabel(fn) == "finished" && len(runsBy[d.Steps[i].Name]) == 0 {
			if allOK {
				bump(c.out, "outcome_decided_by_missing_execution")
			}
			allOK = false
		}
		if rs := runsBy[d.Steps[i].Name]; len(rs) > 0 {
			if last := rs[len(rs)-1]; last.EndSeq != 0 && (last.Code != 0 || last.Signaled != "") {
				if allOK {
					bump(c.out, "outcome_decided_by_exit_status")
				}
				anyFailed, allOK = true, false
			}
		}
	}
	reported := c.final.Status.String()
	var lastStepEnd uint64
	for name, rs := range runsBy {
		if strings.HasPrefix(name, "on_") {
			continue
		}
		for _, r := range rs {
			if r.EndSeq > lastStepEnd {
				lastStepEnd = r.EndSeq
			}
		}
	}
	allowed := map[string]bool{}
	switch {
	case stopped || (d.TimeoutSec > 0 && !c.sc.GenerousTimeout):
		// interval rule: the stop may have landed after the last step ended
		allowed["canceled"] = true
		if allOK {
			allowed["finished"] = true
		}
		if anyFailed {
			allowed["failed"] = true
		}
		if c.cancelSeenSeq == 0 {
			// the stop never took effect (arrived after the end)
			delete(allowed, "canceled")
			if allOK {
				allowed["finished"] = true
			} else {
				allowed["failed"] = true
			}
		}
	case allOK:
		allowed["finished"] = true
	case anyFailed:
		allowed["failed"] = true
	default:
		allowed["failed"] = true
	}
	// a stop that was acknowledged while steps were still to be started must not be forgotten: a step that
	// starts long after the acknowledgement (beyond any injected stall of the goroutine that carries the stop)
	// in a run that is then not reported canceled means the stop was dropped
	if stopped && reported != "canceled" {
		var acceptedAt time.Duration = -1
		for _, e := range c.res.Events {
			if e.Kind == "stop_accepted" && (acceptedAt < 0 || e.At < acceptedAt) {
				acceptedAt = e.At
			}
		}
		if acceptedAt >= 0 {
			for name, rs := range runsBy {
				if strings.HasPrefix(name, "on_") {
					continue
				}
				for _, r := range rs {
					if r.StartAt > acceptedAt+stopForgottenAfter {
						c.viol("C04", "stop-accepted-but-run-completed", c.sc.StopVia+"-as-"+reported, "the stop was acknowledged at %v, yet step %s was started %v later and the run is reported %q", acceptedAt, name, r.StartAt-acceptedAt, reported)
						return
					}
				}
			}
		}
	}
	if !allowed[reported] {
		var al []string
		for k := range allowed {
			al = append(al, k)
		}
		sort.Strings(al)
		c.viol("C04", "wrong-outcome", strings.Join(al, "|")+"-as-"+reported, "run reported %q; steps: allOK=%v anyFailed=%v stopped=%v", reported, allOK, anyFailed, stopped)
	}
	// exit code agrees with outcome
	if reported == "finished" && c.ar.proc.ExitCode != 0 {
		c.viol("C04", "exit-code", "nonzero-on-success", "run reported finished but the process exited %d (%v)", c.ar.proc.ExitCode, c.ar.runErr)
	}
	if reported == "failed" && c.ar.proc.ExitCode == 0 {
		c.viol("C04", "exit-code", "zero-on-failure", "run reported failed but the process exited 0")
	}
	// handlers
	hmap := map[string]string{"finished": "success", "failed": "failure", "canceled": "cancel"}
	matchSet := map[string]bool{hmap[reported]: true}
	lateStop := stopped && c.cancelSeenSeq > lastStepEnd
	if lateStop {
		// the stop took effect only after the last step had ended: the handler may
		// have been chosen before or after it (interval rule)
		bump(c.out, "stop_after_last_step")
		for o := range allowed {
			matchSet[hmap[o]] = true
		}
		matchSet["cancel"] = true
		if allOK {
			matchSet["success"] = true
		} else {
			matchSet["failure"] = true
		}
	}
	ranMatching, cfgMatching := 0, 0
	for _, k := range []string{"success", "failure", "cancel"} {
		rs := runsBy["on_"+k]
		_, configured := d.Handlers[k]
		if matchSet[k] && configured {
			cfgMatching++
		}
		switch {
		case len(rs) > 1:
			c.viol("C04", "handler-count", fmt.Sprintf("%s-ran-%d", k, len(rs)), "handler %s ran %d times", k, len(rs))
		case len(rs) == 1 && !(matchSet[k] && configured):
			c.viol("C04", "handler-unexpected", k+"-on-"+reported, "handler %s ran for outcome %q (configured=%v)", k, reported, configured)
		case len(rs) == 1:
			ranMatching++
		}
		for _, r := range rs {
			if r.StartSeq < lastStepEnd {
				c.viol("C04", "handler-before-last-step", k, "handler %s started (#%d) before the last step ended (#%d)", k, r.StartSeq, lastStepEnd)
			}
		}
	}
	if ranMatching > 1 {
		c.viol("C04", "handler-count", "two-outcome-handlers", "more than one of onSuccess/onFailure/onCancel ran for outcome %q", reported)
	}
	if ranMatching == 0 && cfgMatching > 0 && (!lateStop || cfgMatching == len(matchSet)) {
		c.viol("C04", "handler-count", hmap[reported]+"-ran-0", "the handler matching outcome %q is configured but did not run", reported)
	}
	{
		rs := runsBy["on_exit"]
		_, configured := d.Handlers["exit"]
		if configured && len(rs) != 1 {
			c.viol("C04", "handler-count", fmt.Sprintf("exit-ran-%d", len(rs)), "onExit should run exactly once but ran %d times", len(rs))
		}
		if !configured && len(rs) != 0 {
			c.viol("C04", "handler-unexpected", "exit-unconfigured", "onExit ran although it is not configured")
		}
		for _, r := range rs {
			if r.StartSeq < lastStepEnd {
				c.viol("C04", "handler-before-last-step", "exit", "onExit started (#%d) before the last step ended (#%d)", r.StartSeq, lastStepEnd)
			}
		}
	}
	if ex := runsBy["on_exit"]; len(ex) == 1 {
		for _, k := range []string{"success", "failure", "cancel"} {
			for _, r := range runsBy["on_"+k] {
				if r.EndSeq == 0 || r.EndSeq > ex[0].StartSeq {
					c.viol("C04", "exit-handler-not-last", k, "onExit started (#%d) before handler %s had ended (#%d)", ex[0].StartSeq, k, r.EndSeq)
				}
			}
		}
		bump(c.out, "exit_handler_ran")
	}
	if len(d.Handlers) > 0 {
		c.out.NonTrivial = true
	}
}
