package engines

import (
	"fmt"
	"sort"
	"strings"
	"syscall"
	"testing"
	"time"

	"github.com/ErdemOzgen/blackdagger/internal/verifsim/simexec"
	"github.com/ErdemOzgen/blackdagger/internal/verifsim/simfsnotify"
	"github.com/ErdemOzgen/blackdagger/internal/verifsim/simos"
	"github.com/ErdemOzgen/blackdagger/internal/verifsim/simrt"
	"github.com/robfig/cron/v3"
)

// cronsim (C09): the real scheduler daemon (`blackdagger scheduler`: minute
// loop, entry reader with directory watcher, job guards) runs as a simulated
// process over simulated hours; it starts real agents through the real client;
// an operator adds, edits, removes and suspends DAG files (some malformed);
// the daemon is killed and restarted, or frozen for minutes. The oracle looks
// only at what is visible from outside — which `start` / `restart` processes
// the daemon spawned and when, which runs were cancelled — and compares it,
// per DAG and evaluated minute, with an independent cron matcher and the
// ground-truth state of files, flags and processes (interval-tolerant).

func init() {
	register("cronsim", cronsim)
	PropEngines["C09"] = struct {
		Engine   string
		Variants []string
	}{"cronsim", []string{"cron"}}
}

type cronDag struct {
	File     string   `json:"file"`
	Form     string   `json:"form"` // string list map
	Start    []string `json:"start,omitempty"`
	Stop     []string `json:"stop,omitempty"`
	Restart  []string `json:"restart,omitempty"`
	DurSec   []int    `json:"durSec"`          // step durations (one step per entry, a chain)
	TailMs   int      `json:"tailMs,omitempty"` // added to the last step: fine-tunes when the run ends relative to a tick
	Present0 bool     `json:"present0"`        // exists when the daemon first starts
	Susp0    bool     `json:"susp0,omitempty"` // suspended at the beginning
	Big      bool     `json:"big,omitempty"`   // its first step carries an inline script of about 76 KB: the run's status document exceeds 64 KiB
}

type cronEvent struct {
	AtSec   int      `json:"atSec"` // seconds after the scenario's t0
	Kind    string   `json:"kind"`  // add edit remove suspend resume badfile kill-daemon freeze-daemon kill-agent manual-start
	Dag     int      `json:"dag,omitempty"`
	Start   []string `json:"start,omitempty"` // new schedule for edit
	Bad     string   `json:"bad,omitempty"`
	GapMs   int      `json:"gapMs,omitempty"` // restart gap / freeze length
	Gone    int      `json:"gone,omitempty"`  // kill-daemon: 1+index of a DAG whose file is removed between the new daemon's first directory read and the registration of its watch (0: none)
}

type cronScenario struct {
	Epoch      string      `json:"epoch"`
	HorizonMin int         `json:"horizonMin"`
	ByRename   bool        `json:"byRename,omitempty"` // half of the operator's additions and edits arrive by rename
	Polling    bool        `json:"polling"` // inotify unavailable: the daemon's polling fallback watches the directory
	Dags       []*cronDag  `json:"dags"`
	Events     []cronEvent `json:"events"`
	Sched      SchedCfg    `json:"sched"`
}

func (d *cronDag) yaml(start []string) string {
	var b strings.Builder
	q := func(xs []string) string {
		var o []string
		for _, x := range xs {
			o = append(o, yq(x))
		}
		return strings.Join(o, ", ")
	}
	switch {
	case d.Form == "map" || len(d.Stop) > 0 || len(d.Restart) > 0:
		b.WriteString("schedule:\n")
		if len(start) == 1 && len(d.Stop) == 0 {
			fmt.Fprintf(&b, "  start: %s\n", yq(start[0]))
		} else if len(start) > 0 {
			fmt.Fprintf(&b, "  start: [%s]\n", q(start))
		}
		if len(d.Stop) > 0 {
			fmt.Fprintf(&b, "  stop: [%s]\n", q(d.Stop))
		}
		if len(d.Restart) > 0 {
			fmt.Fprintf(&b, "  restart: %s\n", yq(d.Restart[0]))
		}
	case d.Form == "list" || len(start) > 1:
		b.WriteString("schedule:\n")
		for _, s := range start {
			fmt.Fprintf(&b, "  - %s\n", yq(s))
		}
	case len(start) == 1:
		fmt.Fprintf(&b, "schedule: %s\n", yq(start[0]))
	}
	b.WriteString("maxCleanUpTimeSec: 2\nsteps:\n")
	for i := range d.DurSec {
		fmt.Fprintf(&b, "  - name: s%d\n    command: simstep s%d\n", i, i)
		if i == 0 && d.Big {
			fmt.Fprintf(&b, "    script: %s\n", yq(cronBigScript))
		}
		if i > 0 {
			fmt.Fprintf(&b, "    depends:\n      - s%d\n", i-1)
		}
	}
	return b.String()
}

// cronBigScript makes the live status document of a run (which carries every step with its script) larger than 64 KiB.
var cronBigScript = "#!/bin/sh\n# " + strings.Repeat("long inline script ", 4000) + "\nrun s0\n"

func (d *cronDag) spec() *DagSpec {
	sp := &DagSpec{File: d.File}
	for i, s := range d.DurSec {
		ms := s * 1000
		if i == len(d.DurSec)-1 {
			ms += d.TailMs
		}
		sp.Steps = append(sp.Steps, StepSpec{Name: fmt.Sprintf("s%d", i), RetryLimit: -1, DurMs: []int{ms}})
	}
	if d.Big {
		sp.Steps[0].Script = cronBigScript
	}
	return sp
}

var badFiles = map[string]string{
	"bad-yaml":          "steps:\n  - name: [unclosed\n",
	"bad-cron":          "schedule: \"61 * * * *\"\nsteps:\n  - name: s\n    command: simstep s\n",
	"schedule-map-key":  "schedule:\n  begin: \"* * * * *\"\nsteps:\n  - name: s\n    command: simstep s\n",
	"schedule-number":   "schedule: 5\nsteps:\n  - name: s\n    command: simstep s\n",
	"schedule-nested":   "schedule:\n  start:\n    - [\"* * * * *\"]\nsteps:\n  - name: s\n    command: simstep s\n",
	"schedule-map-null": "schedule:\n  start:\nsteps:\n  - name: s\n    command: simstep s\n",
	"steps-string":      "schedule: \"* * * * *\"\nsteps: nope\n",
	"empty":             "",
	"binary":            "\x00\x01\x02\xff\xfe",
}

var cronEpochs = []time.Time{
	time.Date(2000, 1, 1, 0, 0, 0, 0, time.UTC),
	time.Date(2000, 2, 28, 23, 40, 0, 0, time.UTC), // into 29 Feb of a leap year
	time.Date(2000, 2, 29, 23, 45, 0, 0, time.UTC),
	time.Date(2001, 2, 28, 23, 50, 0, 0, time.UTC), // non-leap year
	time.Date(2000, 4, 30, 23, 30, 0, 0, time.UTC),
	time.Date(2000, 12, 31, 23, 35, 0, 0, time.UTC), // year end
	time.Date(2001, 7, 31, 22, 55, 0, 0, time.UTC),
	time.Date(2002, 3, 9, 11, 58, 0, 0, time.UTC), // hour boundary, a Saturday
	time.Date(2003, 10, 5, 5, 17, 0, 0, time.UTC),
}

func genCronScenario(tp *simrt.Tape, thorough bool) *cronScenario {
	sc := &cronScenario{}
	ep := cronEpochs[tp.Draw(simrt.SGen, len(cronEpochs))]
	if chance(tp, 1, 3) {
		ep = ep.Add(time.Duration(tp.Draw(simrt.SGen, 40000)) * time.Minute)
	}
	ep = ep.Add(time.Duration(tp.Draw(simrt.SGen, 60)) * time.Second)
	sc.Epoch = ep.Format(time.RFC3339)
	sc.HorizonMin = pick(tp, 8, 15, 25, 40, 70)
	if thorough {
		sc.HorizonMin = pick(tp, 15, 40, 90, 180, 400)
	}
	sc.Polling = chance(tp, 1, 5)
	sc.ByRename = chance(tp, 1, 2)
	nd := 1 + tp.Draw(simrt.SGen, 3)
	for i := 0; i < nd; i++ {
		d := &cronDag{File: []string{"nightly", "report two", "etl"}[i], Form: pick(tp, "string", "string", "list", "map")}
		d.Big = chance(tp, 1, 6)
		ns := 1
		if d.Form == "list" {
			ns = 1 + tp.Draw(simrt.SGen, 3)
		}
		for k := 0; k < ns; k++ {
			d.Start = append(d.Start, genCronExpr(tp, ep, sc.HorizonMin))
		}
		if d.Form == "map" {
			if chance(tp, 1, 2) {
				d.Stop = []string{genCronExpr(tp, ep, sc.HorizonMin)}
			}
			if chance(tp, 1, 3) {
				d.Restart = []string{genCronExpr(tp, ep, sc.HorizonMin)}
			}
			if chance(tp, 1, 6) {
				d.Start = nil
			}
		}
		nsteps := 1 + tp.Draw(simrt.SGen, 2)
		for k := 0; k < nsteps; k++ {
			// 58-60 s and 119 s: the run ends (shuts its socket, compacts its record) right around a later tick
			d.DurSec = append(d.DurSec, pick(tp, 1, 3, 8, 20, 45, 58, 59, 59, 60, 80, 119, 150, 400))
		}
		if chance(tp, 1, 3) {
			// the run shuts its socket and compacts its record within milliseconds of a later tick
			d.DurSec = []int{pick(tp, 59, 59, 119)}
			d.TailMs = pick(tp, 700, 800, 850, 880, 900, 920, 950, 980, 995)
		}
		d.Present0 = !chance(tp, 1, 5)
		d.Susp0 = chance(tp, 1, 8)
		sc.Dags = append(sc.Dags, d)
	}
	ne := tp.Draw(simrt.SGen, 3+sc.HorizonMin/8)
	for i := 0; i < ne; i++ {
		e := cronEvent{AtSec: 5 + tp.Draw(simrt.SGen, sc.HorizonMin*60-10), Dag: tp.Draw(simrt.SGen, nd)}
		e.Kind = pick(tp, "add", "edit", "edit", "remove", "suspend", "resume", "badfile", "badfile", "kill-daemon", "kill-daemon", "kill-daemon", "freeze-daemon", "kill-agent", "manual-start")
		switch e.Kind {
		case "edit":
			e.Start = []string{genCronExpr(tp, ep.Add(time.Duration(e.AtSec)*time.Second), sc.HorizonMin)}
		case "badfile":
			ks := sortedKeys(badFiles)
			e.Bad = ks[tp.Draw(simrt.SGen, len(ks))]
		case "kill-daemon":
			e.GapMs = pick(tp, 100, 400, 2000, 9000, 30000, 75000, 200000)
			if chance(tp, 1, 4) {
				e.Gone = 1 + tp.Draw(simrt.SGen, nd)
			}
			if chance(tp, 1, 2) {
				// shortly after a minute boundary: the restarted daemon evaluates a minute that was already handled
				e.AtSec = e.AtSec/60*60 + (60-ep.Second())%60 + pick(tp, 1, 3, 8, 20)
			}
		case "freeze-daemon":
			e.GapMs = pick(tp, 2000, 20000, 61000, 130000, 250000)
		}
		sc.Events = append(sc.Events, e)
	}
	sort.SliceStable(sc.Events, func(i, j int) bool { return sc.Events[i].AtSec < sc.Events[j].AtSec })
	return sc
}

// ---- timelines recorded by the harness --------------------------------------

type span struct{ from, to time.Time } // to.IsZero() = open

func (s span) covers(a, b time.Time) bool {
	return !s.from.After(a) && (s.to.IsZero() || !s.to.Before(b))
}
func (s span) overlaps(a, b time.Time) bool {
	return s.from.Before(b) && (s.to.IsZero() || s.to.After(a))
}

type fileVer struct {
	from  time.Time
	start []*CronExpr // nil slice + valid=false: absent or unloadable
	stop  []*CronExpr
	rest  []*CronExpr
	valid bool
}

type cronTL struct {
	daemons  []*daemonLife
	files    map[int][]fileVer  // per DAG, in time order
	susp     map[int][]fileVer  // valid=true means suspended
	manual   map[int][]time.Time
}

type daemonLife struct {
	proc    *simrt.Proc
	from    time.Time
	to      time.Time // zero = alive at the end
	killed  bool
	freezes []span
}

func parseAll(xs []string) []*CronExpr {
	var out []*CronExpr
	for _, x := range xs {
		if c, err := ParseCron(x); err == nil {
			out = append(out, c)
		}
	}
	return out
}

const (
	cronSlack    = 5 * time.Second  // stated tolerance for the daemon's reaction after a tick
	eventLatency = 3 * time.Second  // a change is honoured from the first minute that begins this long after it (event watcher)
	pollLatency  = 125 * time.Second // same, polling fallback (its interval is one minute)
)

func cronsim(t *testing.T, tp *simrt.Tape, opts RunOpts) *Outcome {
	out := &Outcome{}
	schedCfg, cfg := drawSchedCfg(tp, false)
	cfg.TraceOps = opts.Trace
	cfg.MaxFakeTime = 6 * 365 * 24 * time.Hour // epochs lie up to four years after the bubble's clock origin
	cfg.MaxSteps = 6_000_000
	if cfg.LatencyScale > 1 {
		cfg.LatencyScale = 1
	}
	sc := genCronScenario(tp, opts.Thorough)
	sc.Sched = schedCfg
	out.Sample = sc
	epoch, _ := time.Parse(time.RFC3339, sc.Epoch)

	var cw *cliWorld
	tl := &cronTL{files: map[int][]fileVer{}, susp: map[int][]fileVer{}, manual: map[int][]time.Time{}}
	bindAt := map[int]time.Time{}
	unbindAt := map[int]time.Time{}
	// fault "slow_op": when a run is about to remove its uncompacted record within 1.5 s before a minute
	// boundary, that removal is slow and lands a seeded 0-600 µs after the boundary — inside the daemon's
	// handling of the tick (between its listing of the history directory and its reading of the newest record)
	slowed := map[int]bool{}
	slowOn := chance(tp, 1, 2)
	// fault "flag_stat_error": in a quarter of the runs a third of the daemon's look-ups of a suspend flag
	// that does not exist fail with an error other than "no such file" (EACCES, EIO): a flag that cannot be
	// looked up is not a flag that is set
	flagStatErrOn := chance(tp, 1, 4)
	flagMayExist := map[string]bool{}
	watchErrOn := chance(tp, 1, 3) // fault "watcher_error": the file notification backend reports errors now and then (no event lost)
	cfg.FaultPlan = func(op *simrt.OpInfo) simrt.Fault {
		if flagStatErrOn && op.Kind == "stat" && strings.HasSuffix(op.Path, ".suspend") && strings.HasPrefix(op.Proc.Name, "blackdagger:scheduler") && !flagMayExist[op.Path] {
			if tp.Chance(simrt.SFault, 1, 3) {
				op.Proc.W.CountFault("flag_stat_error")
				return simrt.Fault{Kind: simrt.FErr, Errno: pick2(tp, syscall.EACCES, syscall.EIO)}
			}
			return simrt.Fault{}
		}
		if op.Kind == "inotify_read" {
			if watchErrOn && tp.Chance(simrt.SFault, 1, 3) {
				op.Proc.W.CountFault("watcher_error")
				return simrt.Fault{Kind: simrt.FErr, Errno: syscall.EIO}
			}
			return simrt.Fault{}
		}
		if !slowOn || cw == nil || op.Kind != "unlink" || !strings.HasSuffix(op.Path, ".dat") || slowed[op.Proc.Pid] {
			return simrt.Fault{}
		}
		if cp := cw.byPid[op.Proc.Pid]; cp == nil || cp.spec == nil {
			return simrt.Fault{}
		}
		now := time.Now()
		next := now.Truncate(time.Minute).Add(time.Minute)
		if next.Sub(now) > 1500*time.Millisecond {
			return simrt.Fault{}
		}
		slowed[op.Proc.Pid] = true
		op.Proc.W.CountFault("slow_op")
		return simrt.Fault{Kind: simrt.FSlow, Delay: next.Sub(now) + time.Duration(tp.Draw(simrt.SFault, 60))*10*time.Microsecond}
	}
	goneAtStart := -1 // DAG whose file vanishes when the next daemon creates its watcher (see cronEvent.Gone)
	operatorWriting := false // the operator is in the middle of writing or removing a definition (several file operations)
	var removeNow func(i int)
	cfg.OnOp = func(op *simrt.OpInfo) {
		if goneAtStart >= 0 && removeNow != nil && op.Kind == "inotify_init" && strings.HasPrefix(op.Proc.Name, "blackdagger:scheduler") {
			// the daemon has read the directory once and is about to register its watch: no event will tell it
			i := goneAtStart
			goneAtStart = -1
			if !operatorWriting { // (not in the middle of an edit of the operator: the model could not say what is on disk)
				removeNow(i)
			}
		}
		if cw == nil || !strings.HasSuffix(op.Path, ".sock") {
			return
		}
		cw.noteOp(op)
		switch op.Kind {
		case "bind":
			bindAt[op.Proc.Pid] = time.Now()
		case "close":
			if _, bound := bindAt[op.Proc.Pid]; bound {
				if _, done := unbindAt[op.Proc.Pid]; !done {
					unbindAt[op.Proc.Pid] = time.Now()
				}
			}
		}
	}
	var endAt time.Time
	res := simrt.Run(t, cfg, func(w *simrt.World) {
		cw = newCLIWorld(w, tp)
		simfsnotify.FailNewWatcher(w, sc.Polling)
		byPath := map[string]*cronDag{}
		for _, d := range sc.Dags {
			byPath[dagsDir+"/"+d.File+".yaml"] = d
		}
		cw.specFor = func(path, sub string) *DagSpec {
			if d := byPath[path]; d != nil {
				return d.spec()
			}
			return nil
		}
		// move the clock to the scenario's epoch
		simrt.Sleep(epoch.Sub(time.Now()))
		t0 := time.Now()
		setFile := func(i int, start []string, present bool) {
			operatorWriting = true
			defer func() { operatorWriting = false }()
			d := sc.Dags[i]
			p := dagsDir + "/" + d.File + ".yaml"
			if !present {
				_ = simos.Remove(p)
				tl.files[i] = append(tl.files[i], fileVer{from: time.Now()})
				return
			}
			if sc.ByRename && tp.Chance(simrt.SGen, 1, 2) {
				// delivered the way deployment tools and many editors do it: written elsewhere, then moved
				// into place (the watcher sees one "create", no "write")
				tmp := "/sim/staging/" + d.File + ".yaml.tmp"
				_ = simos.MkdirAll("/sim/staging", 0o755)
				_ = simos.WriteFile(tmp, []byte(d.yaml(start)), 0o644)
				_ = simos.Rename(tmp, p)
				w.Probe("definition_delivered_by_rename")
			} else {
				_ = simos.WriteFile(p, []byte(d.yaml(start)), 0o644)
			}
			tl.files[i] = append(tl.files[i], fileVer{from: time.Now(), start: parseAll(start), stop: parseAll(d.Stop), rest: parseAll(d.Restart), valid: true})
		}
		setSusp := func(i int, on bool) {
			p := flagDir + "/" + strings.ReplaceAll(sc.Dags[i].File, " ", "-") + ".suspend"
			if on {
				flagMayExist[p] = true
				_ = simos.WriteFile(p, nil, 0o644)
			} else {
				_ = simos.Remove(p)
				flagMayExist[p] = false
			}
			tl.susp[i] = append(tl.susp[i], fileVer{from: time.Now(), valid: on})
		}
		cur := map[int][]string{}
		for i, d := range sc.Dags {
			cur[i] = d.Start
			setFile(i, d.Start, d.Present0)
			setSusp(i, d.Susp0)
		}
		startDaemon := func() {
			cp := cw.run(nil, nil, "scheduler")
			tl.daemons = append(tl.daemons, &daemonLife{proc: cp.proc, from: time.Now()})
		}
		startDaemon()
		curDaemon := func() *daemonLife { return tl.daemons[len(tl.daemons)-1] }
		removeNow = func(i int) {
			if n := len(tl.files[i]); n == 0 || !tl.files[i][n-1].valid {
				return // not there anyway
			}
			fsOf(w).RemoveDirect(dagsDir + "/" + sc.Dags[i].File + ".yaml")
			tl.files[i] = append(tl.files[i], fileVer{from: time.Now()})
			w.Probe("file_removed_between_read_and_watch")
		}
		// the operator / fault injector
		inProc(w, "operator", func() {
			for _, e := range sc.Events {
				at := t0.Add(time.Duration(e.AtSec) * time.Second)
				if d := time.Until(at); d > 0 {
					simrt.Sleep(d)
				}
				switch e.Kind {
				case "add":
					setFile(e.Dag, cur[e.Dag], true)
				case "edit":
					cur[e.Dag] = e.Start
					setFile(e.Dag, e.Start, true)
				case "remove":
					setFile(e.Dag, nil, false)
				case "suspend":
					setSusp(e.Dag, true)
				case "resume":
					setSusp(e.Dag, false)
				case "badfile":
					_ = simos.WriteFile(dagsDir+"/zz-"+e.Bad+".yaml", []byte(badFiles[e.Bad]), 0o644)
					w.Probe("bad_file_added")
				case "kill-daemon":
					dl := curDaemon()
					if dl.proc.Alive() {
						w.KillProc(dl.proc, "SIGKILL")
						w.CountFault("daemon_restart")
					}
					dl.to, dl.killed = time.Now(), true
					simrt.Sleep(time.Duration(e.GapMs) * time.Millisecond)
					if e.Gone > 0 {
						goneAtStart = e.Gone - 1
					}
					startDaemon()
				case "freeze-daemon":
					dl := curDaemon()
					if dl.proc.Alive() {
						w.FreezeProc(dl.proc, time.Duration(e.GapMs)*time.Millisecond)
						until := time.Now().Add(time.Duration(e.GapMs) * time.Millisecond)
						if n := len(dl.freezes); n > 0 && dl.freezes[n-1].to.After(time.Now()) {
							// still frozen: one longer freeze
							if until.After(dl.freezes[n-1].to) {
								dl.freezes[n-1].to = until
							}
						} else {
							dl.freezes = append(dl.freezes, span{time.Now(), until})
						}
					}
				case "kill-agent":
					for _, cp := range cw.procs {
						if cp.spec != nil && cp.proc.Alive() && cp.args[len(cp.args)-1] == dagsDir+"/"+sc.Dags[e.Dag].File+".yaml" {
							w.KillProc(cp.proc, "SIGKILL")
							w.CountFault("agent_kill")
							break
						}
					}
					reapOrphans(w)
				case "manual-start":
					if v := tl.files[e.Dag]; len(v) > 0 && v[len(v)-1].valid {
						tl.manual[e.Dag] = append(tl.manual[e.Dag], time.Now())
						cw.run(sc.Dags[e.Dag].spec(), nil, "start", dagsDir+"/"+sc.Dags[e.Dag].File+".yaml")
					}
				}
			}
			if d := time.Until(t0.Add(time.Duration(sc.HorizonMin) * time.Minute)); d > 0 {
				simrt.Sleep(d)
			}
		})
		endAt = time.Now()
		// stop the daemon, let the agents end
		dl := curDaemon()
		if dl.proc.Alive() {
			w.KillProc(dl.proc, "SIGKILL")
		}
		dl.to = endAt
		for i := 0; i < 2000; i++ {
			alive := false
			for _, cp := range cw.procs {
				if cp.spec != nil && cp.proc.Alive() {
					alive = true
				}
			}
			if !alive {
				break
			}
			simrt.Sleep(time.Second)
		}
		for _, cp := range cw.procs {
			_ = cp
		}
	})
	finishOutcome(out, res, opts, "C09")
	if !endAt.IsZero() {
		out.FakeTime = endAt.Sub(epoch) // the jump to the epoch is not simulated behaviour
	} else {
		out.FakeTime = 0
	}
	if out.Infra != "" || cw == nil {
		return out
	}
	cw.truth.Finalize(res.Events)
	base := res.Events
	_ = base
	// ---- ground truth from the event log
	start0 := time.Time{}
	if len(res.Events) > 0 {
		start0 = epoch.Add(-res.Events[0].At) // not used for arithmetic; events carry offsets from the world's start
	}
	_ = start0
	worldStart := cwWorldStart(cw)
	at := func(d time.Duration) time.Time { return worldStart.Add(d) }
	spawnAt, exitAt := map[int]time.Time{}, map[int]time.Time{}
	for _, e := range res.Events {
		switch e.Kind {
		case "proc_spawn":
			spawnAt[int(e.N)] = at(e.At)
		case "proc_exit":
			exitAt[int(e.N)] = at(e.At)
		}
	}
	for _, dl := range tl.daemons {
		if dl.to.IsZero() {
			dl.to = endAt
		}
		if ex, ok := exitAt[dl.proc.Pid]; ok && ex.Before(dl.to.Add(-time.Millisecond)) && !dl.killed {
			out.Violations = append(out.Violations, Violation{Prop: "C09", Clause: "daemon-died", Disc: fmt.Sprintf("exit-%d", dl.proc.ExitCode), Msg: fmt.Sprintf("the daemon process ended by itself at %s (exit %d): %s", ex.Format("15:04:05"), dl.proc.ExitCode, lastLines(dl.proc, 3))})
			dl.to = ex
		} else if ok && ex.Before(dl.to) {
			dl.to = ex
		}
	}
	// a bind that failed (the address had just been taken by a racing agent) is not a listening socket
	if cw != nil && cw.w != nil {
		okBind, _ := cw.w.Data["sock_bound"].(map[int]bool)
		for pid := range bindAt {
			if !okBind[pid] {
				delete(bindAt, pid)
				delete(unbindAt, pid)
			}
		}
	}
	chk := &cronCheck{out: out, sc: sc, tl: tl, cw: cw, spawnAt: spawnAt, exitAt: exitAt, bindAt: bindAt, unbindAt: unbindAt, endAt: endAt}
	chk.run()
	out.NonTrivial = out.Probes["evaluation_required_start"] > 0
	return out
}

func cwWorldStart(cw *cliWorld) time.Time { return cw.w.Start }

type cronCheck struct {
	out      *Outcome
	sc       *cronScenario
	tl       *cronTL
	cw       *cliWorld
	spawnAt  map[int]time.Time
	exitAt   map[int]time.Time
	bindAt   map[int]time.Time
	unbindAt map[int]time.Time
	endAt    time.Time
}

func (c *cronCheck) viol(clause, disc, format string, a ...any) {
	c.out.Violations = append(c.out.Violations, Violation{Prop: "C09", Clause: clause, Disc: disc, Msg: fmt.Sprintf(format, a...)})
}

type evaluation struct {
	minute time.Time
	a, b   time.Time // window in which the daemon evaluates that minute
	life   *daemonLife
	kind   string // tick startup after-freeze
	frozen time.Time // for after-freeze: when the freeze began (what the daemon knows dates from before it)
	fuzzy  bool   // cannot tell whether this evaluation happens at all
}

// evaluations lists, for one daemon life, the minutes it evaluates and when.
func (c *cronCheck) evaluations(dl *daemonLife) []evaluation {
	var evs []evaluation
	frozenAt := func(t time.Time) (span, bool) {
		for _, f := range dl.freezes {
			if !f.from.After(t) && f.to.After(t) {
				return f, true
			}
		}
		return span{}, false
	}
	// start-up: the daemon evaluates the minute it starts in. A daemon that is frozen before it has
	// finished starting up (configuration, first directory read) only starts for real when the freeze ends:
	// the minutes in between are not ticks it owes
	from := dl.from
	startupFrozen := false
	for _, f := range dl.freezes {
		if f.from.Before(dl.from.Add(2*time.Second)) && f.to.After(from) {
			from, startupFrozen = f.to, true
		}
	}
	m0 := from.Truncate(time.Minute)
	su := evaluation{minute: m0, a: from, b: from.Add(cronSlack), life: dl, kind: "startup"}
	if from.Add(cronSlack).After(m0.Add(time.Minute)) || startupFrozen {
		su.fuzzy = true // so close to the boundary (or so uncertain) that start-up may read the next minute
	}
	if startupFrozen {
		// it may also have read the clock just before it froze
		evs = append(evs, evaluation{minute: dl.from.Truncate(time.Minute), a: dl.from, b: from.Add(cronSlack), life: dl, kind: "startup", fuzzy: true})
		// ... or it had finished starting up after all: then the ticks of the minutes that went by while it
		// was frozen are delivered in a bunch when it thaws, each evaluating its own minute
		for m := dl.from.Truncate(time.Minute).Add(time.Minute); m.Before(m0); m = m.Add(time.Minute) {
			evs = append(evs, evaluation{minute: m, a: from, b: from.Add(cronSlack), life: dl, kind: "after-freeze", frozen: dl.from, fuzzy: true})
		}
	}
	evs = append(evs, su)
	for m := m0.Add(time.Minute); m.Before(dl.to); m = m.Add(time.Minute) {
		e := evaluation{minute: m, a: m, b: m.Add(cronSlack), life: dl, kind: "tick"}
		if su.fuzzy && m.Equal(m0.Add(time.Minute)) {
			e.fuzzy = true
		}
		if f, ok := frozenAt(m); ok {
			e.a, e.b, e.kind, e.frozen = f.to, f.to.Add(cronSlack), "after-freeze", f.from
		} else {
			// frozen at some point inside the window: the evaluation may be delayed
			for _, f := range dl.freezes {
				if f.overlaps(e.a, e.b) {
					e.b, e.kind, e.frozen = f.to.Add(cronSlack), "after-freeze", f.from
				}
			}
		}
		evs = append(evs, e)
	}
	for i := range evs {
		if evs[i].b.After(dl.to) {
			evs[i].fuzzy = true // the daemon died (or the scenario ended) inside the window
		}
	}
	return evs
}

func verAt(vs []fileVer, t time.Time) fileVer {
	var cur fileVer
	for _, v := range vs {
		if !v.from.After(t) {
			cur = v
		}
	}
	return cur
}

// stable reports whether one version was in force throughout [a, b].
func stable(vs []fileVer, a, b time.Time) (fileVer, bool) {
	for _, v := range vs {
		if v.from.After(a) && !v.from.After(b) {
			return fileVer{}, false
		}
	}
	return verAt(vs, a), true
}

func anyMatch(xs []*CronExpr, m time.Time) bool {
	for _, x := range xs {
		if x.Matches(m) {
			return true
		}
	}
	return false
}

func (c *cronCheck) run() {
	lat := eventLatency
	if c.sc.Polling {
		lat = pollLatency
	}
	for i, d := range c.sc.Dags {
		path := dagsDir + "/" + d.File + ".yaml"
		var agents []*cliProc
		for _, cp := range c.cw.procs {
			if cp.spec != nil && cp.args[len(cp.args)-1] == path {
				agents = append(agents, cp)
			}
		}
		end := func(cp *cliProc) time.Time {
			if t, ok := c.exitAt[cp.proc.Pid]; ok {
				return t
			}
			return c.endAt.Add(24 * time.Hour)
		}
		isDaemonChild := func(cp *cliProc, dl *daemonLife) bool { return cp.proc.PPid == dl.proc.Pid }
		for _, dl := range c.tl.daemons {
			evs := c.evaluations(dl)
			// groups of evaluations that share a window start (bunched ticks after a freeze)
			type grp struct {
				evs              []evaluation
				a, b             time.Time
				starts, restarts []*cliProc
			}
			var groups []*grp
			for gi := 0; gi < len(evs); {
				gj := gi + 1
				for gj < len(evs) && evs[gj].a.Equal(evs[gi].a) {
					gj++
				}
				g := &grp{evs: evs[gi:gj], a: evs[gi].a, b: evs[gi].b}
				for _, e := range g.evs {
					if e.b.After(g.b) {
						g.b = e.b
					}
				}
				groups = append(groups, g)
				gi = gj
			}
			// every start / restart this daemon life issued for the DAG belongs to the latest evaluation
			// window that contains it
			for _, cp := range agents {
				if !isDaemonChild(cp, dl) || (cp.sub != "start" && cp.sub != "restart") {
					continue
				}
				s := c.spawnAt[cp.proc.Pid]
				var best *grp
				for _, g := range groups {
					if !s.Before(g.a) && !s.After(g.b) && (best == nil || g.a.After(best.a)) {
						best = g
					}
				}
				switch {
				case best == nil:
					c.viol("start-outside-any-tick", cp.sub, "DAG %q: the daemon issued `%s` at %s, which is not within %v of any minute it evaluates", d.File, cp.sub, s.Format("15:04:05.000"), cronSlack)
				case cp.sub == "start":
					best.starts = append(best.starts, cp)
				default:
					best.restarts = append(best.restarts, cp)
				}
			}
			for _, g := range groups {
				group, a, b, starts, restarts := g.evs, g.a, g.b, g.starts, g.restarts
				required, allowed, reqRestart, allowRestart := 0, 0, 0, 0
				var reasons []string
				for gk, e := range group {
					// what the daemon knows: a file version that was in force since before the window (by the
					// watcher's latency), or — for a fresh daemon — whatever was there when it started
					from := e.a.Add(-lat)
					if !e.frozen.IsZero() {
						from = e.frozen.Add(-lat) // a frozen daemon learns nothing
					}
					if from.Before(dl.from) {
						from = dl.from.Add(-time.Millisecond)
					}
					ver, verOK := stable(c.tl.files[i], from, e.b)
					sus, susOK := stable(c.tl.susp[i], e.a.Add(-time.Second), e.b)
					if !e.frozen.IsZero() {
						sus, susOK = stable(c.tl.susp[i], e.frozen.Add(-time.Second), e.b)
					}
					// processes of this DAG
					idle, running := true, false
					startedInOrAfter, maybeStartedInOrAfter, shadowed := false, false, false
					for _, cp := range agents {
						sp, ex := c.spawnAt[cp.proc.Pid], end(cp)
						// a run counts as in progress from its spawn until it has shut its status socket (what the
						// daemon and the API go by); after that only its final record and its exit remain
						active := ex
						if ub, ok := c.unbindAt[cp.proc.Pid]; ok && ub.Before(ex) {
							active = ub
						}
						if sp.Before(e.b) && active.After(e.a.Add(-5*time.Millisecond)) && !containsProc(starts, cp) {
							idle = false
						} else if sp.Before(e.b) && ex.After(e.a.Add(-5*time.Millisecond)) && !containsProc(starts, cp) {
							bump(c.out, "evaluation_while_previous_run_shuts_down")
						}
						if bt, ok := c.bindAt[cp.proc.Pid]; ok && bt.Before(e.a.Add(-time.Second)) && ex.After(e.b) {
							if ub, ok := c.unbindAt[cp.proc.Pid]; !ok || ub.After(e.b) {
								alone := true
								for _, o := range agents {
									if o != cp && c.spawnAt[o.proc.Pid].Before(ex) && end(o).After(sp) {
										alone = false
									}
								}
								if alone {
									running = true
								}
							}
						}
						if containsProc(starts, cp) {
							continue
						}
						// a run that started in or after the evaluated minute
						if !sp.Before(e.minute.Add(-2*time.Second)) && sp.Before(e.b) {
							maybeStartedInOrAfter = true
							if bt, ok := c.bindAt[cp.proc.Pid]; ok && !sp.Before(e.minute) && bt.Before(e.a.Add(-time.Second)) {
								startedInOrAfter = true // it recorded its start (before it bound its socket) well before the evaluation
								// ... unless a second agent of the DAG raced it through the probe..bind window (C16's
								// known window: e.g. a start and a restart entry of the same minute), lost, and left a
								// record of its own: that record can be the newest one and has no start time
								for _, o := range agents {
									if _, bound := c.bindAt[o.proc.Pid]; o != cp && !bound && c.spawnAt[o.proc.Pid].Before(bt) && end(o).After(sp) {
										shadowed = true
									}
								}
							}
						}
					}
					matchStart := verOK && ver.valid && anyMatch(ver.start, e.minute)
					noMatch := true // under every version in force during the window
					for _, v := range c.tl.files[i] {
						if (v.from.After(from) && !v.from.After(e.b)) || v.from.Equal(verAt(c.tl.files[i], from).from) {
							if v.valid && anyMatch(v.start, e.minute) {
								noMatch = false
							}
						}
					}
					forbidden := ""
					switch {
					case noMatch:
						forbidden = "minute-does-not-match"
					case susOK && sus.valid:
						forbidden = "suspended"
					case running:
						forbidden = "already-running"
					case startedInOrAfter:
						forbidden = "already-started-for-this-minute"
						if shadowed {
							forbidden += "/shadowed-by-refused-twin"
						}
					}
					switch {
					case forbidden != "":
						reasons = append(reasons, forbidden)
					case !e.fuzzy && matchStart && susOK && !sus.valid && idle && !maybeStartedInOrAfter && gk == 0:
						required++
						bump(c.out, "evaluation_required_start")
						bump(c.out, "evaluation_"+e.kind)
					default:
						allowed++
					}
					// restart entries have no guard
					if verOK && ver.valid && anyMatch(ver.rest, e.minute) && susOK && !sus.valid && !e.fuzzy {
						reqRestart++
					} else {
						anyR := false
						for _, v := range c.tl.files[i] {
							if v.valid && anyMatch(v.rest, e.minute) {
								anyR = true
							}
						}
						if anyR && !(susOK && sus.valid) {
							allowRestart++
						}
					}
					// stop entries: a run that is in progress throughout the evaluation must be cancelled
					if verOK && ver.valid && anyMatch(ver.stop, e.minute) && susOK && !sus.valid && !e.fuzzy {
						bump(c.out, "evaluation_stop_matches")
						for _, cp := range agents {
							// in progress (listening) since before the evaluation, and the only run of the DAG
							bt, ok := c.bindAt[cp.proc.Pid]
							if !ok || !bt.Before(e.a.Add(-time.Second)) || !end(cp).After(e.a) {
								continue
							}
							if ub, ok := c.unbindAt[cp.proc.Pid]; ok && ub.Before(e.a.Add(50*time.Millisecond)) {
								continue // it was already shutting down
							}
							alone := true
							for _, o := range agents {
								if o != cp && c.spawnAt[o.proc.Pid].Before(end(cp)) && end(o).After(c.spawnAt[cp.proc.Pid]) {
									alone = false
								}
							}
							if alone {
								bump(c.out, "evaluation_stop_while_running")
								c.checkStopped(cp, e, d)
							}
						}
					}
				}
				n := len(starts)
				when := group[0].minute.Format("2006-01-02 15:04")
				kind := group[0].kind
				if len(group) > 1 {
					kind = "bunched-ticks"
				}
				if n < required {
					c.viol("missed-start", kind+"/"+formOf(d), "DAG %q (schedule at that time: %s): minute %s matches, the DAG was loadable, not suspended, not running and its latest run was older, the daemon (pid %d) was up — but it issued no start within %v", d.File, exprsOf(verAt(c.tl.files[i], a).start), when, dl.proc.Pid, b.Sub(a))
				}
				if n > required+allowed {
					why := "double-start"
					if len(reasons) > 0 {
						why = reasons[0]
					}
					c.viol("unexpected-start", why+"/"+kind, "DAG %q: the daemon (pid %d) issued %d start(s) at %s for minute %s although %s (evaluations in the window: %d required, %d undecided, forbidden: %v)", d.File, dl.proc.Pid, n, c.spawnAt[starts[0].proc.Pid].Format("15:04:05.000"), when, why, required, allowed, reasons)
				} else if n > 0 {
					bump(c.out, "start_issued")
				}
				if len(restarts) < reqRestart {
					c.viol("missed-restart", kind, "DAG %q: restart schedule %v matches %s but the daemon issued %d restart(s)", d.File, d.Restart, when, len(restarts))
				}
				if len(restarts) > reqRestart+allowRestart {
					c.viol("unexpected-restart", kind, "DAG %q: the daemon issued %d restart(s) around %s, schedule %v", d.File, len(restarts), when, d.Restart)
				} else if len(restarts) > 0 {
					bump(c.out, "restart_issued")
				}
			}
		}
	}
}

func exprsOf(xs []*CronExpr) string {
	var o []string
	for _, x := range xs {
		o = append(o, x.Text)
	}
	return strings.Join(o, " | ")
}

func containsProc(ps []*cliProc, p *cliProc) bool {
	for _, x := range ps {
		if x == p {
			return true
		}
	}
	return false
}

func formOf(d *cronDag) string {
	if len(d.Stop) > 0 || len(d.Restart) > 0 {
		return "map"
	}
	return d.Form
}

// checkStopped: a run in progress at a matching stop minute ends as cancelled soon after.
func (c *cronCheck) checkStopped(cp *cliProc, e evaluation, d *cronDag) {
	ex, ok := c.exitAt[cp.proc.Pid]
	natural := c.spawnAt[cp.proc.Pid]
	for _, s := range d.DurSec {
		natural = natural.Add(time.Duration(s) * time.Second)
	}
	if natural.Before(e.b.Add(15 * time.Second)) {
		return // it would have ended by itself about then anyway
	}
	if !ok || ex.After(e.b.Add(20*time.Second)) {
		c.viol("stop-not-delivered", e.kind, "DAG %q: stop schedule %v matches %s and the run (pid %d) was in progress, but it was still going 20 s later", d.File, d.Stop, e.minute.Format("15:04"), cp.proc.Pid)
		return
	}
	bump(c.out, "run_stopped_by_schedule")
}

// ---------------------------------------------------------------------------
// self-test: the independent matcher agrees with robfig/cron on generated expressions

func cronSelfTest(n int) error {
	tp := simrt.NewTape(12345)
	parser := cron.NewParser(cron.Minute | cron.Hour | cron.Dom | cron.Month | cron.Dow)
	for i := 0; i < n; i++ {
		ep := cronEpochs[tp.Draw(simrt.SGen, len(cronEpochs))].Add(time.Duration(tp.Draw(simrt.SGen, 2_000_000)) * time.Minute)
		expr := genCronExpr(tp, ep, 60)
		mine, err := ParseCron(expr)
		ref, err2 := parser.Parse(expr)
		if (err == nil) != (err2 == nil) {
			return fmt.Errorf("%q: parse disagreement: %v vs %v", expr, err, err2)
		}
		if err != nil {
			continue
		}
		for k := 0; k < 40; k++ {
			m := ep.Truncate(time.Minute).Add(time.Duration(tp.Draw(simrt.SGen, 3*24*60)) * time.Minute)
			want := ref.Next(m.Add(-time.Second)).Equal(m)
			if got := mine.Matches(m); got != want {
				return fmt.Errorf("%q at %s: matcher says %v, robfig/cron says %v", expr, m.Format(time.RFC3339), got, want)
			}
		}
	}
	return nil
}

var _ = simexec.WaitProc
