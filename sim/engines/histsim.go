package engines

import (
	"errors"
	"fmt"
	"os"
	"sort"
	"strings"
	"syscall"
	"testing"
	"time"

	"github.com/ErdemOzgen/blackdagger/internal/dag"
	dagsched "github.com/ErdemOzgen/blackdagger/internal/dag/scheduler"
	"github.com/ErdemOzgen/blackdagger/internal/persistence"
	"github.com/ErdemOzgen/blackdagger/internal/persistence/jsondb"
	"github.com/ErdemOzgen/blackdagger/internal/persistence/model"
	"github.com/ErdemOzgen/blackdagger/internal/verifsim/simexec"
	"github.com/ErdemOzgen/blackdagger/internal/verifsim/simrt"
	"github.com/google/uuid"
)

// histsim drives the real jsondb history store on the simulated disk.
//
//	C06: sequential operation sequences compared with HistoryModel after every op.
//	C07: a victim operation sequence killed before/after/inside its k-th system call
//	     (two passes over the same scenario), then queried; plus a concurrent-reader batch.

func init() {
	register("histsim", histsim)
	PropEngines["C06"] = struct {
		Engine   string
		Variants []string
	}{"histsim", []string{"seq"}}
	PropEngines["C07"] = struct {
		Engine   string
		Variants []string
	}{"histsim", []string{"crash", "crash", "crash", "reader"}}
	e := PropEngines["C06"]
	e.Variants = []string{"seq", "seq", "seq", "race", "diskfull"}
	PropEngines["C06"] = e
}

var dagNames = []string{"a", "a.b", "a_c", "a b", "ab", "x[1]", "q*", "w?x", "a.20240101.10:00:00.000", "rep_c.x", "Zeta"}

type histOp struct {
	Kind    string `json:"kind"` // start write close update rename removeold removeall sleep
	Dag     int    `json:"dag"`
	Run     int    `json:"run,omitempty"` // index into runs (update/write/close)
	To      int    `json:"to,omitempty"`  // rename target name index
	Days    int    `json:"days,omitempty"`
	SleepMs int64  `json:"sleepMs,omitempty"`
}

type histScenario struct {
	Variant     string   `json:"variant"`
	Names       []string `json:"names"`
	ZoneMin     int    `json:"zoneMin,omitempty"` // offset of the host's time zone from UTC, minutes
	LatestToday bool     `json:"latestToday"`
	Ops         []histOp `json:"ops"`
	Victim      []histOp `json:"victim,omitempty"`
	CrashAt     []int    `json:"crashAt,omitempty"`
	Sched       SchedCfg `json:"sched"`
}

// mRun is one run in the reference model.
type mRun struct {
	id       string
	dag      string // current DAG path
	started  time.Time
	acked    int // marker of the last acknowledged status (0 = none)
	maxTried int // highest marker whose write was attempted
	open     bool
	db       *jsondb.JSONDB
	removed  bool
	complete bool
}

type histModel struct {
	runs []*mRun
}

func dagFile(name string) string { return dagsDir + "/" + name + ".yaml" }

func mkStatus(id, name string, marker int, st dagsched.Status) *model.Status {
	return &model.Status{
		RequestID:  id,
		Name:       name,
		Status:     st,
		StatusText: st.String(),
		PID:        model.PID(4242),
		StartedAt:  "2000-01-01 00:00:00",
		Params:     fmt.Sprintf("marker=%d", marker),
		Nodes: []*model.Node{{Step: dag.Step{Name: "s", Command: "true"}, Status: dagsched.NodeStatusSuccess, StatusText: "finished",
			Log: strings.Repeat("x", payloadLen(marker))}},
	}
}

// payloadLen varies the size of a status line: mostly small, sometimes beyond 64 KiB and 128 KiB
// (a few hundred steps or a long parameter string produce such lines in practice).
func payloadLen(marker int) int {
	switch {
	case marker%13 == 5:
		return 70_000
	case marker%29 == 7:
		return 140_000
	}
	return marker % 7 * 300
}

func markerOf(st *model.Status) int {
	var m int
	if st == nil {
		return -1
	}
	if _, err := fmt.Sscanf(st.Params, "marker=%d", &m); err != nil {
		return -1
	}
	return m
}

// inProc runs fn in a short-lived simulated process and waits for it. Goroutines
// the process started (cache eviction timers) die with it.
func inProc(w *simrt.World, name string, fn func()) *simrt.Proc {
	p := w.Spawn(simrt.CurProc(), name, []string{name}, baseEnv(nil), workDir, true, func(p *simrt.Proc) int {
		fn()
		return 0
	})
	simexec.WaitProc(p)
	return p
}

func newDB(w *simrt.World, latestToday bool) *jsondb.JSONDB {
	var db *jsondb.JSONDB
	inProc(w, "mkdb", func() { db = jsondb.New(dataDir, latestToday) })
	return db
}

func genHistOps(tp *simrt.Tape, nNames int, maxOps int, allowRetention bool) []histOp {
	n := 3 + tp.Draw(simrt.SGen, maxOps)
	var ops []histOp
	for i := 0; i < n; i++ {
		d := tp.Draw(simrt.SGen, nNames)
		switch k := tp.Draw(simrt.SGen, 20); {
		case k < 6:
			ops = append(ops, histOp{Kind: "start", Dag: d})
		case k < 10:
			ops = append(ops, histOp{Kind: "write", Run: tp.Draw(simrt.SGen, 8)})
		case k < 13:
			ops = append(ops, histOp{Kind: "close", Run: tp.Draw(simrt.SGen, 8)})
		case k < 15:
			ops = append(ops, histOp{Kind: "update", Run: tp.Draw(simrt.SGen, 8)})
		case k == 15:
			ops = append(ops, histOp{Kind: "rename", Dag: d, To: tp.Draw(simrt.SGen, nNames)})
		case k == 16 && allowRetention:
			ops = append(ops, histOp{Kind: "removeold", Dag: d, Days: tp.Draw(simrt.SGen, 3)})
		case k == 17 && allowRetention:
			ops = append(ops, histOp{Kind: "removeall", Dag: d})
		default:
			ops = append(ops, histOp{Kind: "sleep", SleepMs: pick(tp, int64(1), 2, 7, 400, 999, 1000, 1001, 61_000, 3_600_000, 86_400_000-5, 86_400_000, 2*86_400_000+3)})
		}
	}
	return ops
}

type histCtx struct {
	w       *simrt.World
	sc      *histScenario
	m       *histModel
	server  *jsondb.JSONDB
	out     *Outcome
	prop    string
	marker  int
	nameOf  []string // current name per slot (renames change it)
	relaxed bool     // C07: after a kill
	faulty  bool     // C06 diskfull: writes may fail; a failed operation has acknowledged nothing
	crashInfo string
	crashDetail string
}

func (h *histCtx) viol(clause, disc, format string, a ...any) {
	h.out.Violations = append(h.out.Violations, Violation{Prop: h.prop, Clause: clause, Disc: disc, Msg: fmt.Sprintf(format, a...)})
}

func nameClass(n string) string {
	switch {
	case strings.ContainsAny(n, "[]*?"):
		return "glob-meta-name"
	case strings.Contains(n, " "):
		return "space-name"
	case strings.Contains(n, "_c"):
		return "compaction-suffix-name"
	case strings.Count(n, ".") >= 2:
		return "timestamp-like-name"
	case strings.Contains(n, "."):
		return "dotted-name"
	}
	return "plain-name"
}

func (h *histCtx) liveRuns(dagPath string) []*mRun {
	var out []*mRun
	for _, r := range h.m.runs {
		if r.dag == dagPath && !r.removed && r.maxTried > 0 {
			out = append(out, r)
		}
	}
	sort.SliceStable(out, func(i, j int) bool { return out[i].started.After(out[j].started) })
	return out
}

// applyOp executes one operation through the real store and updates the model.
// It returns false if the op was not applicable (skipped).
func (h *histCtx) applyOp(op histOp) bool {
	w := h.w
	pickRun := func(pred func(r *mRun) bool) *mRun {
		var c []*mRun
		for _, r := range h.m.runs {
			if !r.removed && pred(r) {
				c = append(c, r)
			}
		}
		if len(c) == 0 {
			return nil
		}
		return c[op.Run%len(c)]
	}
	switch op.Kind {
	case "sleep":
		simrt.Sleep(time.Duration(op.SleepMs) * time.Millisecond)
	case "start":
		id, _ := uuid.NewRandom()
		r := &mRun{id: id.String(), dag: dagFile(h.nameOf[op.Dag]), started: time.Now(), open: true}
		// request ids must differ in their first 8 characters (the file name keeps only those)
		for _, o := range h.m.runs {
			if o.id[:8] == r.id[:8] {
				return false
			}
		}
		r.db = newDB(w, h.sc.LatestToday)
		h.marker++
		r.maxTried = h.marker // known to the model before its file can exist
		h.m.runs = append(h.m.runs, r)
		if err := r.db.Open(r.dag, r.started, r.id); err != nil {
			h.viol("open-failed", nameClass(h.nameOf[op.Dag]), "Open(%s) failed: %v", r.dag, err)
			return true
		}
		if err := r.db.Write(mkStatus(r.id, h.nameOf[op.Dag], h.marker, dagsched.StatusRunning)); err != nil {
			if !h.faulty {
				h.viol("write-failed", nameClass(h.nameOf[op.Dag]), "Write failed: %v", err)
			}
			simrt.Sleep(time.Millisecond) // (as below)
			return true
		}
		r.acked = h.marker
		simrt.Sleep(time.Millisecond) // two runs never share a millisecond (the file name's own resolution)
	case "write":
		r := pickRun(func(r *mRun) bool { return r.open })
		if r == nil {
			return false
		}
		h.marker++
		r.maxTried = h.marker
		if err := r.db.Write(mkStatus(r.id, "n", h.marker, dagsched.StatusRunning)); err != nil {
			if !h.faulty {
				h.viol("write-failed", "open-run", "Write failed: %v", err)
			}
			return true
		}
		r.acked = h.marker
	case "close":
		r := pickRun(func(r *mRun) bool { return r.open })
		if r == nil {
			return false
		}
		h.marker++
		r.maxTried = h.marker
		if err := r.db.Write(mkStatus(r.id, "n", h.marker, dagsched.StatusSuccess)); err != nil {
			if !h.faulty {
				h.viol("write-failed", "open-run", "Write failed: %v", err)
				return true
			}
			// the run ends all the same: its record is closed (and compacted) with what it holds
			_ = r.db.Close()
			r.open = false
			return true
		}
		r.acked = h.marker
		if err := r.db.Close(); err != nil && !h.faulty {
			h.viol("close-failed", "compaction", "Close failed: %v", err)
		}
		r.open = false
		r.complete = true
	case "update":
		r := pickRun(func(r *mRun) bool { return !r.open && r.acked > 0 })
		if r == nil {
			return false
		}
		h.marker++
		mk := h.marker
		r.maxTried = mk
		var err error
		done := false
		inProc(w, "updater", func() {
			db := jsondb.New(dataDir, h.sc.LatestToday)
			err = db.Update(r.dag, r.id, mkStatus(r.id, "n", mk, dagsched.StatusError))
			done = true
		})
		if !done {
			return true // the process was killed inside the operation: nothing was acknowledged
		}
		if err != nil {
			if !h.faulty {
				h.viol("update-failed", nameClass(nameFromPath(r.dag)), "Update(%s, %s) failed: %v", r.dag, r.id[:8], err)
			}
			return true
		}
		r.acked = mk
	case "rename":
		from, to := dagFile(h.nameOf[op.Dag]), ""
		// rename onto a fresh name only (merging histories is not specified)
		cand := dagNames[op.To%len(dagNames)] + "-r"
		for _, n := range h.nameOf {
			if n == cand {
				return false
			}
		}
		for _, r := range h.m.runs {
			if r.dag == from && r.open {
				return false // the statement does not cover renaming a run in progress
			}
		}
		to = dagFile(cand)
		var err error
		done := false
		inProc(w, "renamer", func() {
			db := jsondb.New(dataDir, h.sc.LatestToday)
			err = db.Rename(from, to)
			done = true
		})
		if !done {
			return true
		}
		if err != nil {
			h.viol("rename-failed", nameClass(h.nameOf[op.Dag]), "Rename(%s,%s) failed: %v", from, to, err)
			return true
		}
		for _, r := range h.m.runs {
			if r.dag == from {
				r.dag = to
			}
		}
		h.nameOf[op.Dag] = cand
	case "removeold", "removeall":
		path := dagFile(h.nameOf[op.Dag])
		days := op.Days
		var err error
		cutoff := time.Now().AddDate(0, 0, -days)
		done := false
		inProc(w, "cleaner", func() {
			db := jsondb.New(dataDir, h.sc.LatestToday)
			if op.Kind == "removeall" {
				cutoff = time.Now()
				err = db.RemoveAll(path)
			} else {
				err = db.RemoveOld(path, days)
			}
			done = true
		})
		if !done {
			return true
		}
		if err != nil {
			h.viol("retention-failed", nameClass(h.nameOf[op.Dag]), "%s(%s) failed: %v", op.Kind, path, err)
		}
		// learn what disappeared; only runs that started before the cut-off may
		var fresh persistence.HistoryStore = newDB(w, h.sc.LatestToday)
		for _, r := range h.m.runs {
			if r.removed || r.acked == 0 {
				continue
			}
			_, ferr := fresh.FindByRequestID(r.dag, r.id)
			if ferr == nil {
				continue
			}
			if r.dag != path {
				h.viol("retention-crossed-dags", nameClass(h.nameOf[op.Dag]), "%s on %s made run %s of %s disappear", op.Kind, path, r.id[:8], r.dag)
				r.removed = true
				continue
			}
			if !r.started.Before(cutoff) {
				h.viol("retention-removed-young-run", op.Kind, "%s(%s, %d days) removed run %s started %v, cut-off %v", op.Kind, path, days, r.id[:8], r.started.Format(time.RFC3339Nano), cutoff.Format(time.RFC3339Nano))
			}
			if r.open {
				// the run goes on and ends after its record was removed (a DAG deleted while it runs): its last
				// write and its close must not bring anything of it back
				h.marker++
				_ = r.db.Write(mkStatus(r.id, "n", h.marker, dagsched.StatusSuccess))
				_ = r.db.Close()
				r.open = false
				bump(h.out, "run_ended_after_its_record_was_removed")
			}
			r.removed = true
			bump(h.out, "retention_removed_run")
		}
	}
	return true
}

func nameFromPath(p string) string {
	p = strings.TrimPrefix(p, dagsDir+"/")
	return strings.TrimSuffix(p, ".yaml")
}

// compareAll checks every query for every DAG against the model.
func (h *histCtx) compareAll(after string) {
	stores := []struct {
		n string
		s persistence.HistoryStore
	}{{"cached", h.server}, {"fresh", newDB(h.w, h.sc.LatestToday)}}
	dags := map[string]bool{}
	for _, r := range h.m.runs {
		dags[r.dag] = true
	}
	for _, n := range h.nameOf {
		dags[dagFile(n)] = true
	}
	var dl []string
	for d := range dags {
		dl = append(dl, d)
	}
	sort.Strings(dl)
	for _, st := range stores {
		for _, d := range dl {
			now := time.Now()
			nc := nameClass(nameFromPath(d))
			live := h.liveRuns(d)
			// ---- lookup by id
			for _, r := range live {
				sf, err := st.s.FindByRequestID(d, r.id)
				if err != nil {
					if r.acked > 0 {
						h.viol("lookup-lost-run", nc, "[%s after %s] FindByRequestID(%s, %s): %v; last acknowledged marker %d", st.n, after, d, r.id[:8], err, r.acked)
					}
					continue
				}
				got := markerOf(sf.Status)
				if got < r.acked || got > r.maxTried || sf.Status.RequestID != r.id {
					h.viol("lookup-wrong-status", nc, "[%s after %s] FindByRequestID(%s, %s) returned marker %d (request %s), acknowledged %d, newest attempted %d", st.n, after, d, r.id[:8], got, sf.Status.RequestID[:8], r.acked, r.maxTried)
				}
			}
			// ---- latest (today)
			var want *mRun
			for _, r := range live {
				if r.acked == 0 {
					continue
				}
				if h.sc.LatestToday && r.started.Format("20060102") != now.Format("20060102") {
					continue
				}
				want = r
				break
			}
			got, err := st.s.ReadStatusToday(d)
			dayChanged := time.Now().Format("20060102") != now.Format("20060102")
			switch {
			case dayChanged && h.sc.LatestToday:
				// the query straddled midnight: "today" is ambiguous, nothing is demanded
			case want == nil && err == nil && got != nil:
				// an unacknowledged (in-flight) run may legitimately show; anything else is data from nowhere
				ok := false
				for _, r := range live {
					if r.id == got.RequestID {
						ok = true
					}
				}
				if !ok {
					h.viol("latest-from-nowhere", nc, "[%s after %s] ReadStatusToday(%s) returned request %s that the model does not know for this DAG today", st.n, after, d, got.RequestID)
				}
			case want != nil && err != nil:
				h.viol("latest-error", nc+h.sameSecond(live), "[%s after %s] ReadStatusToday(%s): %v; expected run %s marker %d", st.n, after, d, err, want.id[:8], want.acked)
			case want != nil:
				gm := markerOf(got)
				if got.RequestID != want.id {
					// a younger run without acknowledged data is also acceptable
					younger := false
					for _, r := range live {
						if r.id == got.RequestID && !r.started.Before(want.started) {
							younger = true
						}
					}
					if !younger {
						h.viol("latest-wrong-run", nc+h.sameSecond(live), "[%s after %s] ReadStatusToday(%s) returned run %s, the most recently started is %s", st.n, after, d, got.RequestID[:8], want.id[:8])
					}
				} else if gm < want.acked || gm > want.maxTried {
					h.viol("latest-stale-status", nc, "[%s after %s] ReadStatusToday(%s) returned marker %d of run %s, acknowledged %d", st.n, after, d, gm, want.id[:8], want.acked)
				}
			}
			// ---- recent(n)
			for _, n := range []int{1, 3, 100} {
				res := st.s.ReadStatusRecent(d, n)
				var ackedLive []*mRun
				for _, r := range live {
					if r.acked > 0 {
						ackedLive = append(ackedLive, r)
					}
				}
				// every returned entry must be a known run of this DAG with a plausible status
				seen := map[string]bool{}
				var gotIDs []string
				for _, sf := range res {
					id := sf.Status.RequestID
					gotIDs = append(gotIDs, id[:min(8, len(id))])
					if seen[id] {
						h.viol("recent-duplicate", nc, "[%s after %s] ReadStatusRecent(%s,%d) lists run %s twice", st.n, after, d, n, id[:8])
					}
					seen[id] = true
					var mr *mRun
					for _, r := range live {
						if r.id == id {
							mr = r
						}
					}
					if mr == nil {
						h.viol("recent-foreign-run", nc, "[%s after %s] ReadStatusRecent(%s,%d) lists %s which is not a run of this DAG", st.n, after, d, n, id)
						continue
					}
					if gm := markerOf(sf.Status); gm < mr.acked || gm > mr.maxTried {
						h.viol("recent-stale-status", nc, "[%s after %s] ReadStatusRecent(%s,%d): run %s has marker %d, acknowledged %d", st.n, after, d, n, id[:8], gm, mr.acked)
					}
				}
				// exact expectation only when no unacknowledged run muddies the window
				clean := len(ackedLive) == len(live)
				if clean && !h.relaxed {
					wantN := min(n, len(ackedLive))
					var wantIDs []string
					for _, r := range ackedLive[:wantN] {
						wantIDs = append(wantIDs, r.id[:8])
					}
					if strings.Join(gotIDs, ",") != strings.Join(wantIDs, ",") {
						clause := "recent-wrong-order"
						if len(gotIDs) != len(wantIDs) {
							clause = "recent-wrong-count"
						} else {
							a := append([]string{}, gotIDs...)
							b := append([]string{}, wantIDs...)
							sort.Strings(a)
							sort.Strings(b)
							if strings.Join(a, ",") != strings.Join(b, ",") {
								clause = "recent-wrong-set"
							}
						}
						h.viol(clause, nc+h.sameSecond(live), "[%s after %s] ReadStatusRecent(%s,%d) = [%s], expected newest-first [%s]", st.n, after, d, n, strings.Join(gotIDs, ","), strings.Join(wantIDs, ","))
					}
				} else {
					// relaxed: no acknowledged run may be pushed out of a window that is large enough
					if n >= len(live) {
						for _, r := range ackedLive {
							if !seen[r.id] {
								h.viol("recent-hides-acked-run", nc, "[%s after %s] ReadStatusRecent(%s,%d) = [%s] omits acknowledged run %s", st.n, after, d, n, strings.Join(gotIDs, ","), r.id[:8])
							}
						}
					}
				}
			}
		}
	}
}

// sameSecond tags a discriminator when two live runs of the DAG started within one wall-clock second.
func (h *histCtx) sameSecond(live []*mRun) string {
	for i := range live {
		for j := i + 1; j < len(live); j++ {
			if live[i].started.Unix() == live[j].started.Unix() {
				return "/same-second-starts"
			}
		}
	}
	return ""
}

func histsim(t *testing.T, tp *simrt.Tape, opts RunOpts) *Outcome {
	out := &Outcome{}
	sc := &histScenario{Variant: opts.Variant}
	if sc.Variant == "" {
		sc.Variant = "seq"
	}
	schedCfg, cfg := drawSchedCfg(tp, false)
	sc.Sched = schedCfg
	cfg.TraceOps = opts.Trace
	cfg.MaxFakeTime = 400 * 24 * time.Hour
	cfg.MaxSteps = 3_000_000
	// names: 2-3 distinct names from the grammar
	nn := 2 + tp.Draw(simrt.SGen, 2)
	perm := append([]string{}, dagNames...)
	for i := len(perm) - 1; i > 0; i-- {
		j := tp.Draw(simrt.SGen, i+1)
		perm[i], perm[j] = perm[j], perm[i]
	}
	sc.Names = perm[:nn]
	sc.LatestToday = chance(tp, 2, 3)
	// the host's time zone: record names and "today" both go by local time, and must go by the same one
	// (east of UTC only: the fake clock starts on 2000-01-01T00:00Z, and west of UTC that is still 1999, a
	// year the record names were never meant for)
	sc.ZoneMin = pick(tp, 0, 0, 0, 720, 330, 840, 60, 600)
	if sc.ZoneMin != 0 {
		old := time.Local
		time.Local = time.FixedZone("SIM", sc.ZoneMin*60)
		defer func() { time.Local = old }()
		bump(out, "host_time_zone_not_utc")
	}
	out.Sample = sc
	switch sc.Variant {
	case "seq":
		maxOps := 18
		if opts.Thorough {
			maxOps = 40
		}
		sc.Ops = genHistOps(tp, nn, maxOps, true)
		return histSeq(t, tp, cfg, sc, out, opts)
	case "race":
		return histRace(t, tp, cfg, sc, out, opts)
	case "diskfull":
		maxOps := 14
		if opts.Thorough {
			maxOps = 30
		}
		sc.Ops = genHistOps(tp, nn, maxOps, false)
		return histDisk(t, tp, cfg, sc, out, opts)
	default:
		sc.Ops = genHistOps(tp, nn, 8, false) // small prior history
		return histCrash(t, tp, cfg, sc, out, opts)
	}
}

// histRace (C06): what a long-lived, caching reader (the server, the daemon) returns while and after another
// process records statuses. Rounds of two or three back-to-back writes to one run's record (manual edits, or
// the status lines of a run in progress) with a tight poller on the cached instance; after every round, once
// the writer is done, the cached instance must return the last status recorded, like the uncached lookup.
func histRace(t *testing.T, tp *simrt.Tape, cfg simrt.Config, sc *histScenario, out *Outcome, opts RunOpts) *Outcome {
	rounds := 6 + tp.Draw(simrt.SGen, 10)
	live := chance(tp, 1, 2) // the writes are those of a run in progress (one writer, file kept open) instead of edits
	shared := !live && chance(tp, 1, 2) // the edits go through the same long-lived instance that answers the queries (the API server)
	if shared {
		// two goroutines of one process around an unlocked map: every map operation is a scheduling point here
		cfg.LockYieldNum = 100
	}
	res := simrt.Run(t, cfg, func(w *simrt.World) {
		seedIDs(tp)
		setupDirs(w)
		h := &histCtx{w: w, sc: sc, m: &histModel{}, out: out, prop: "C06", nameOf: append([]string{}, sc.Names...)}
		h.server = jsondb.New(dataDir, sc.LatestToday)
		name := sc.Names[0]
		path := dagFile(name)
		// an older, completed run, and the run that is written to
		h.applyOp(histOp{Kind: "start", Dag: 0})
		h.applyOp(histOp{Kind: "close", Run: 0})
		simrt.Sleep(3 * time.Millisecond)
		h.applyOp(histOp{Kind: "start", Dag: 0})
		cur := h.m.runs[len(h.m.runs)-1]
		if !live {
			h.applyOp(histOp{Kind: "close", Run: 1 << 20})
		}
		if len(out.Violations) > 0 {
			return
		}
		done := false
		pollerDone := make(chan struct{})
		poll := func() {
			for n := 0; !done && n < 20000; n++ {
				_ = h.server.ReadStatusRecent(path, 2)
				if n%3 == 0 {
					_, _ = h.server.ReadStatusToday(path)
				}
				w.Probe("race_poll")
				if shared {
					w.Probe("race_poll_shared")
				}
				if shared {
					simrt.Yield() // back to back: a busy server (a timer wait here would keep the two apart)
				} else {
					simrt.Sleep(time.Duration(20+tp.Draw(simrt.SLat, 200)) * time.Microsecond)
				}
			}
		}
		var poller *simrt.Proc
		if shared {
			// one server process: a request handler goroutine lists while another one edits through the same instance
			simrt.Go(func() {
				defer close(pollerDone)
				poll()
			})
		} else {
			poller = w.Spawn(simrt.CurProc(), "poller", []string{"poller"}, baseEnv(nil), workDir, true, func(p *simrt.Proc) int {
				poll()
				return 0
			})
		}
		for r := 0; r < rounds && len(out.Violations) == 0; r++ {
			nw := 2 + tp.Draw(simrt.SGen, 2)
			last := 0
			write := func() {
				h.marker++
				last = h.marker
				st := mkStatus(cur.id, name, last, dagsched.StatusRunning)
				var err error
				if live {
					err = cur.db.Write(st)
				} else if shared {
					err = h.server.Update(path, cur.id, st)
				} else {
					err = jsondb.New(dataDir, sc.LatestToday).Update(path, cur.id, st)
				}
				if err != nil {
					h.viol("write-failed", "race", "recording status %d failed: %v", last, err)
				}
			}
			if live || shared {
				for i := 0; i < nw; i++ {
					write()
				}
			} else {
				inProc(w, "updater", func() {
					for i := 0; i < nw; i++ {
						write()
					}
				})
			}
			cur.acked = last
			// let the poller finish whatever it was in the middle of
			if shared {
				for k := 0; k < 40; k++ {
					simrt.Yield()
				}
			} else {
				simrt.Sleep(time.Duration(1+tp.Draw(simrt.SGen, 3)) * time.Millisecond)
			}
			w.Probe("race_round")
			if shared {
				w.Probe("race_round_shared")
			}
			byID, err := h.server.FindByRequestID(path, cur.id)
			if err != nil || markerOf(byID.Status) != last {
				h.viol("lookup-stale-status", "concurrent-reader", "round %d: lookup by id returns marker %d (err %v), the last status recorded is %d", r, markerOf(statusOrNil(byID)), err, last)
			}
			rec := h.server.ReadStatusRecent(path, 1)
			if len(rec) != 1 || rec[0].Status.RequestID != cur.id || markerOf(rec[0].Status) != last {
				got := -1
				if len(rec) == 1 {
					got = markerOf(rec[0].Status)
				}
				h.viol("recent-stale-status", "concurrent-reader", "round %d (%d back-to-back writes, run in progress: %v): the cached reader's recent(1) returns marker %d, the last status recorded is %d", r, nw, live, got, last)
			}
			if td, err := h.server.ReadStatusToday(path); err == nil && td.RequestID == cur.id && markerOf(td) != last {
				h.viol("latest-stale-status", "concurrent-reader", "round %d: the cached reader's latest status has marker %d, the last status recorded is %d", r, markerOf(td), last)
			}
		}
		done = true
		if poller != nil {
			simexec.WaitProc(poller)
		} else {
			simrt.Yield()
			select {
			case <-pollerDone:
				simrt.Woke()
			case <-simrt.Dead():
				simrt.Die()
			}
		}
		out.NonTrivial = true
	})
	fillOutcome(out, res, opts)
	if len(res.Panics) > 0 {
		out.Violations = append(out.Violations, Violation{Prop: "C06", Clause: "panic", Disc: panicDisc(res.Panics[0]), Msg: res.Panics[0]})
	}
	return out
}

func statusOrNil(sf *model.StatusFile) *model.Status {
	if sf == nil {
		return nil
	}
	return sf.Status
}

// histDisk (C06, variant "diskfull"): the operation sequences of the plain batch on a disk that is full now
// and then: a seeded share of the writes to history records fails (no space or I/O error) after none, one,
// half or all but the last byte of the data has been written. An operation that reported an error has
// acknowledged nothing; whatever was acknowledged before and after must be what the queries return — the
// fragment a failed write left behind must not swallow a later status, and a record must not vanish because
// its compaction could not be written.
func histDisk(t *testing.T, tp *simrt.Tape, cfg simrt.Config, sc *histScenario, out *Outcome, opts RunOpts) *Outcome {
	den := pick(tp, 2, 3, 5, 9)
	cfg.FaultPlan = func(op *simrt.OpInfo) simrt.Fault {
		if op.Kind != "write" || !strings.HasSuffix(op.Path, ".dat") || op.Len == 0 || !tp.Chance(simrt.SFault, 1, den) {
			return simrt.Fault{}
		}
		n := []int{0, 1, op.Len / 2, op.Len - 1}[tp.Draw(simrt.SFault, 4)]
		op.Proc.W.CountFault("write_error")
		if n > 0 {
			op.Proc.W.CountFault("short_write")
		}
		var errno syscall.Errno = syscall.ENOSPC
		if tp.Chance(simrt.SFault, 1, 4) {
			errno = syscall.EIO
		}
		return simrt.Fault{Kind: simrt.FErr, Errno: errno, N: n}
	}
	res := simrt.Run(t, cfg, func(w *simrt.World) {
		seedIDs(tp)
		setupDirs(w)
		h := &histCtx{w: w, sc: sc, m: &histModel{}, out: out, prop: "C06", nameOf: append([]string{}, sc.Names...), relaxed: true, faulty: true}
		h.crashInfo = "after-failed-writes"
		h.server = jsondb.New(dataDir, sc.LatestToday)
		for i, op := range sc.Ops {
			if !h.applyOp(op) || op.Kind == "sleep" {
				continue
			}
			tag := fmt.Sprintf("op %d %s", i, op.Kind)
			h.relaxedCheck(tag, h.server, "cached", nil)
			h.relaxedCheck(tag, newDB(w, sc.LatestToday), "fresh", nil)
			if len(out.Violations) > 0 {
				break
			}
		}
		acked := 0
		for _, r := range h.m.runs {
			if r.acked > 0 {
				acked++
			}
		}
		out.NonTrivial = acked >= 1 && w.Stats.Faults["write_error"] > 0
	})
	fillOutcome(out, res, opts)
	if len(res.Panics) > 0 {
		out.Violations = append(out.Violations, Violation{Prop: "C06", Clause: "panic", Disc: panicDisc(res.Panics[0]), Msg: res.Panics[0]})
	}
	return out
}

func histSeq(t *testing.T, tp *simrt.Tape, cfg simrt.Config, sc *histScenario, out *Outcome, opts RunOpts) *Outcome {
	res := simrt.Run(t, cfg, func(w *simrt.World) {
		seedIDs(tp)
		setupDirs(w)
		h := &histCtx{w: w, sc: sc, m: &histModel{}, out: out, prop: "C06", nameOf: append([]string{}, sc.Names...)}
		// the long-lived server instance keeps its cache (and its eviction timer) for the whole run
		h.server = jsondb.New(dataDir, sc.LatestToday)
		applied := 0
		for i, op := range sc.Ops {
			if !h.applyOp(op) {
				continue
			}
			applied++
			if op.Kind != "sleep" {
				h.compareAll(fmt.Sprintf("op %d %s", i, op.Kind))
			}
			if len(out.Violations) > 0 {
				break
			}
		}
		out.NonTrivial = len(h.m.runs) >= 2
		for _, r := range h.m.runs {
			for _, o := range h.m.runs {
				if r != o && r.dag == o.dag && r.started.Unix() == o.started.Unix() {
					bump(out, "same_second_starts")
				}
			}
		}
	})
	fillOutcome(out, res, opts)
	if len(res.Panics) > 0 {
		out.Violations = append(out.Violations, Violation{Prop: "C06", Clause: "panic", Disc: panicDisc(res.Panics[0]), Msg: res.Panics[0]})
	}
	return out
}

// ---------------------------------------------------------------------------
// C07: crash enumeration and concurrent readers

type inflight struct {
	kind   string // rename | retention
	from   string
	to     string
	cutoff time.Time
}

type snap struct {
	r   *mRun
	ack int
}

// relaxedCheck is the C07 oracle: nothing acknowledged is lost or hidden, nothing errors.
func (h *histCtx) relaxedCheck(tag string, st persistence.HistoryStore, stName string, fl *inflight) {
	dags := map[string]bool{}
	for _, r := range h.m.runs {
		dags[r.dag] = true
	}
	var dl []string
	for d := range dags {
		dl = append(dl, d)
	}
	sort.Strings(dl)
	for _, d := range dl {
		nc := nameClass(nameFromPath(d))
		var snaps []snap
		for _, r := range h.m.runs {
			if r.dag == d && !r.removed {
				snaps = append(snaps, snap{r, r.acked})
			}
		}
		sort.SliceStable(snaps, func(i, j int) bool { return snaps[i].r.started.After(snaps[j].r.started) })
		affected := fl != nil && (fl.from == d || fl.to == d)
		// ---- lookup
		for _, s := range snaps {
			if s.ack == 0 {
				continue
			}
			sf, err := st.FindByRequestID(d, s.r.id)
			if err != nil && affected && fl.kind == "rename" {
				sf, err = st.FindByRequestID(fl.to, s.r.id)
			}
			if err != nil {
				if affected && fl.kind == "retention" && s.r.started.Before(fl.cutoff) {
					s.r.removed = true
					continue
				}
				h.viol("lookup-lost-run", h.crashDisc(s.r), "[%s %s] FindByRequestID(%s, %s): %v; marker %d had been acknowledged", stName, tag, d, s.r.id[:8], err, s.ack)
				continue
			}
			if gm := markerOf(sf.Status); gm < s.ack || gm > s.r.maxTried || sf.Status.RequestID != s.r.id {
				h.viol("lookup-wrong-status", h.crashDisc(s.r), "[%s %s] FindByRequestID(%s, %s) returned marker %d, acknowledged %d, newest attempted %d", stName, tag, d, s.r.id[:8], gm, s.ack, s.r.maxTried)
			}
		}
		if affected {
			continue
		}
		// ---- latest
		var newest *snap
		for i := range snaps {
			if snaps[i].ack == 0 || snaps[i].r.removed {
				continue
			}
			if h.sc.LatestToday && snaps[i].r.started.Format("20060102") != time.Now().Format("20060102") {
				continue
			}
			newest = &snaps[i]
			break
		}
		if newest != nil {
			day0 := time.Now().Format("20060102")
			got, err := st.ReadStatusToday(d)
			if h.sc.LatestToday && time.Now().Format("20060102") != day0 {
				// straddled midnight: nothing is demanded
			} else if err != nil {
				h.viol("latest-error", h.discWithYounger(snaps, newest), "[%s %s] ReadStatusToday(%s): %v although run %s has acknowledged data", stName, tag, d, err, newest.r.id[:8])
			} else {
				var mr *mRun
				for _, s := range snaps {
					if s.r.id == got.RequestID {
						mr = s.r
					}
				}
				switch {
				case mr == nil:
					h.viol("latest-foreign-run", nc, "[%s %s] ReadStatusToday(%s) returned unknown request %s", stName, tag, d, got.RequestID)
				case mr.started.Before(newest.r.started):
					h.viol("latest-fell-back", h.crashDisc(newest.r), "[%s %s] ReadStatusToday(%s) returned older run %s although run %s has acknowledged data", stName, tag, d, mr.id[:8], newest.r.id[:8])
				case mr == newest.r && (markerOf(got) < newest.ack || markerOf(got) > mr.maxTried):
					h.viol("latest-stale-status", h.crashDisc(newest.r), "[%s %s] ReadStatusToday(%s) returned marker %d, acknowledged %d", stName, tag, d, markerOf(got), newest.ack)
				}
			}
		}
		if newest == nil {
			// nothing acknowledged that the query could return: it says so, it does not fail
			day0 := time.Now().Format("20060102")
			_, err := st.ReadStatusToday(d)
			if err != nil && !errors.Is(err, persistence.ErrNoStatusData) && !errors.Is(err, persistence.ErrNoStatusDataToday) &&
				!(h.sc.LatestToday && time.Now().Format("20060102") != day0) {
				h.viol("latest-error", "nothing-acknowledged", "[%s %s] ReadStatusToday(%s): %v; with no acknowledged status to return the answer is \"no status data\", not a failure", stName, tag, d, err)
			} else if err != nil {
				bump(h.out, "latest_says_no_data_after_crash")
			}
		}
		// ---- recent
		all := st.ReadStatusRecent(d, 100)
		seen := map[string]bool{}
		for _, sf := range all {
			seen[sf.Status.RequestID] = true
			known := false
			for _, s := range snaps {
				if s.r.id == sf.Status.RequestID {
					known = true
					if gm := markerOf(sf.Status); gm < s.ack || gm > s.r.maxTried {
						h.viol("recent-stale-status", h.crashDisc(s.r), "[%s %s] ReadStatusRecent(%s,100): run %s marker %d, acknowledged %d", stName, tag, d, s.r.id[:8], gm, s.ack)
					}
				}
			}
			if !known {
				h.viol("recent-foreign-run", nc, "[%s %s] ReadStatusRecent(%s,100) lists unknown request %s", stName, tag, d, sf.Status.RequestID)
			}
		}
		for _, s := range snaps {
			if s.ack > 0 && !s.r.removed && !seen[s.r.id] {
				h.viol("recent-hides-acked-run", h.crashDisc(s.r), "[%s %s] ReadStatusRecent(%s,100) omits run %s whose marker %d had been acknowledged", stName, tag, d, s.r.id[:8], s.ack)
			}
		}
		if newest != nil || (!h.sc.LatestToday && len(snaps) > 0) {
			var anyAck *snap
			for i := range snaps {
				if snaps[i].ack > 0 && !snaps[i].r.removed {
					anyAck = &snaps[i]
					break
				}
			}
			if anyAck != nil {
				one := st.ReadStatusRecent(d, 1)
				if len(one) == 0 {
					h.viol("recent1-empty", h.discWithYounger(snaps, anyAck), "[%s %s] ReadStatusRecent(%s,1) is empty although run %s has acknowledged data", stName, tag, d, anyAck.r.id[:8])
				} else {
					for _, s := range snaps {
						if s.r.id == one[0].Status.RequestID && s.r.started.Before(anyAck.r.started) {
							h.viol("recent1-fell-back", h.crashDisc(anyAck.r), "[%s %s] ReadStatusRecent(%s,1) returned older run %s instead of %s", stName, tag, d, s.r.id[:8], anyAck.r.id[:8])
						}
					}
				}
			}
		}
	}
}

// youngerUnacked tags the case "a younger run exists whose file was created but nothing was acknowledged yet".
func (h *histCtx) youngerUnacked(snaps []snap, newest *snap) string {
	for _, s := range snaps {
		if s.ack == 0 && !s.r.started.Before(newest.r.started) && s.r != newest.r {
			return "/younger-run-without-acked-data"
		}
	}
	return ""
}

func (h *histCtx) discWithYounger(snaps []snap, newest *snap) string {
	if h.youngerUnacked(snaps, newest) != "" {
		return "younger-run-without-acked-data"
	}
	return h.crashDisc(newest.r)
}

func (h *histCtx) crashDisc(r *mRun) string {
	if h.crashInfo == "" {
		return "no-crash"
	}
	return h.crashInfo
}

type victimPlan struct {
	Kind   string `json:"kind"` // run update rename removeold
	Writes int    `json:"writes,omitempty"`
	Dag    int    `json:"dag"`
	Run    int    `json:"run,omitempty"`
	Days   int    `json:"days,omitempty"`
	To     int    `json:"to,omitempty"`
}

func victimOps(v victimPlan) []histOp {
	switch v.Kind {
	case "run":
		ops := []histOp{{Kind: "start", Dag: v.Dag}}
		for i := 0; i < v.Writes; i++ {
			ops = append(ops, histOp{Kind: "write", Run: 1 << 20}) // the newest open run (see pickVictimRun)
		}
		return append(ops, histOp{Kind: "close", Run: 1 << 20})
	case "update":
		return []histOp{{Kind: "update", Run: v.Run}}
	case "update2":
		// two edits of the same run in quick succession (no compaction in between): a cached reader that is
		// reloading the file because of the first must not miss the second
		ops := []histOp{}
		for i := 0; i < 4+v.Writes*3; i++ {
			ops = append(ops, histOp{Kind: "update", Run: v.Run})
		}
		return ops
	case "rename":
		return []histOp{{Kind: "rename", Dag: v.Dag, To: v.To}}
	default:
		return []histOp{{Kind: "removeold", Dag: v.Dag, Days: v.Days}}
	}
}

var victimProcNames = map[string]bool{"victim": true, "updater": true, "renamer": true, "cleaner": true}

func histCrash(t *testing.T, tp *simrt.Tape, cfg simrt.Config, sc *histScenario, out *Outcome, opts RunOpts) *Outcome {
	kinds := []string{"run", "run", "run", "update", "rename", "removeold"}
	if sc.Variant == "reader" {
		kinds = append(kinds, "update2", "update2", "update2")
	}
	v := victimPlan{Kind: kinds[tp.Draw(simrt.SGen, len(kinds))], Writes: tp.Draw(simrt.SGen, 4), Dag: tp.Draw(simrt.SGen, len(sc.Names)), Run: tp.Draw(simrt.SGen, 8), Days: tp.Draw(simrt.SGen, 2), To: tp.Draw(simrt.SGen, len(dagNames))}
	sc.Victim = victimOps(v)
	reader := sc.Variant == "reader"
	// in half of the crash scenarios the long-lived cached instance (the server) keeps polling while the
	// victim runs, so that the kill can land between a cache load and the write it raced with
	pollDuringCrash := !reader && (v.Kind == "run" || v.Kind == "update") && chance(tp, 1, 2)

	type armed struct {
		k    int
		mode int // 0 before, 1 after, 2 torn
		frac int
	}
	var victimSyscalls []string
	runWorld := func(arm *armed, trace bool) (*simrt.Result, *histCtx) {
		c := cfg
		c.TraceOps = trace
		victimPhase := false
		crashed := false
		nOps := 0
		var h *histCtx
		c.FaultPlan = func(op *simrt.OpInfo) simrt.Fault {
			if !victimPhase || crashed || !victimProcNames[op.Proc.Name] {
				return simrt.Fault{}
			}
			k := nOps
			nOps++
			if arm == nil {
				victimSyscalls = append(victimSyscalls, op.Kind)
				return simrt.Fault{}
			}
			if k != arm.k {
				return simrt.Fault{}
			}
			crashed = true
			h.crashDetail = fmt.Sprintf("%s-op=%s/%s", sc.Victim[0].Kind, op.Kind, []string{"kill-before", "kill-after", "torn"}[arm.mode])
			h.crashInfo = "crash-in-" + v.Kind
			if strings.Contains(op.Path, "_c.dat") {
				h.crashDetail += "/compacted-twin"
			}
			switch arm.mode {
			case 0:
				return simrt.Fault{Kind: simrt.FKillBefore}
			case 1:
				return simrt.Fault{Kind: simrt.FKillAfter}
			default:
				if op.Kind != "write" || op.Len == 0 {
					return simrt.Fault{Kind: simrt.FKillAfter}
				}
				n := []int{0, 1, op.Len / 2, op.Len - 1}[arm.frac%4]
				return simrt.Fault{Kind: simrt.FTorn, N: n}
			}
		}
		res := simrt.Run(t, c, func(w *simrt.World) {
			seedIDs(tp)
			setupDirs(w)
			h = &histCtx{w: w, sc: sc, m: &histModel{}, out: out, prop: "C07", nameOf: append([]string{}, sc.Names...), relaxed: true}
			h.server = jsondb.New(dataDir, sc.LatestToday)
			for _, op := range sc.Ops {
				h.applyOp(op)
			}
			// finish open runs so that the prior history consists of completed runs (and some that stay open)
			for i, r := range h.m.runs {
				if r.open && i%2 == 0 {
					_ = r.db.Close()
					r.open = false
				}
			}
			simrt.Sleep(time.Duration(1+tp.Draw(simrt.SGen, 1500)) * time.Millisecond)
			preViol := len(out.Violations)
			// warm the server's cache
			h.relaxedCheck("before-victim", h.server, "cached", nil)
			out.Violations = out.Violations[:preViol] // C06 territory: not judged here
			var fl *inflight
			victimPhase = true
			victim := w.Spawn(simrt.CurProc(), "victim", []string{"victim"}, baseEnv(nil), workDir, true, func(p *simrt.Proc) int {
				for _, op := range sc.Victim {
					if crashed {
						return 137
					}
					switch op.Kind {
					case "rename":
						cand := dagNames[op.To%len(dagNames)] + "-r"
						fl = &inflight{kind: "rename", from: dagFile(h.nameOf[op.Dag]), to: dagFile(cand)}
					case "removeold":
						fl = &inflight{kind: "retention", from: dagFile(h.nameOf[op.Dag]), cutoff: time.Now().AddDate(0, 0, -op.Days).Add(time.Second)}
					}
					h.applyOp(op)
					if !crashed {
						fl = nil
					}
				}
				return 0
			})
			if pollDuringCrash {
				w.Spawn(simrt.CurProc(), "poller", []string{"poller"}, baseEnv(nil), workDir, true, func(p *simrt.Proc) int {
					for n := 0; victim.Alive() && n < 400; n++ {
						for _, name := range h.nameOf {
							_ = h.server.ReadStatusRecent(dagFile(name), 2)
						}
						w.Probe("poll_rounds_during_crash_scenario")
					}
					return 0
				})
			}
			if reader && v.Kind == "update2" {
				// a tight poller on the long-lived cached instance: most of its time is spent between "read the
				// file" and "note its size and mtime", which is where a write of the other process must not be lost
				w.Spawn(simrt.CurProc(), "poller", []string{"poller"}, baseEnv(nil), workDir, true, func(p *simrt.Proc) int {
					for n := 0; victim.Alive() && n < 400; n++ {
						for _, name := range h.nameOf {
							_ = h.server.ReadStatusRecent(dagFile(name), 2)
						}
						w.Probe("tight_poll_rounds")
					}
					return 0
				})
			}
			if reader {
				rd := w.Spawn(simrt.CurProc(), "reader", []string{"reader"}, baseEnv(nil), workDir, true, func(p *simrt.Proc) int {
					n := 0
					for victim.Alive() && n < 30 {
						// a reader's glob-then-open is not atomic with respect to compaction; the property
						// is about what persists, so a concurrent anomaly counts only if it shows again at once
						pre := len(out.Violations)
						h.relaxedCheck(fmt.Sprintf("concurrent#%d", n), h.server, "cached", fl)
						if len(out.Violations) > pre {
							first := map[string]bool{}
							for _, v := range out.Violations[pre:] {
								first[v.Sig()] = true
							}
							out.Violations = out.Violations[:pre]
							w.Probe("concurrent_transient_anomaly")
							h.relaxedCheck(fmt.Sprintf("concurrent#%d-again", n), h.server, "cached", fl)
							kept := out.Violations[:pre]
							for _, v := range out.Violations[pre:] {
								if first[v.Sig()] {
									kept = append(kept, v)
								}
							}
							out.Violations = kept
						}
						n++
						w.Probe("concurrent_query_rounds")
					}
					return 0
				})
				simexec.WaitProc(rd)
			}
			simexec.WaitProc(victim)
			victimPhase = false
			if crashed {
				bump(out, "crash_landed")
				w.Probe("crash:" + h.crashDetail)
			}
			simrt.Sleep(time.Duration(tp.Draw(simrt.SGen, 3)) * 700 * time.Millisecond)
			h.relaxedCheck("after-victim", h.server, "cached", fl)
			h.relaxedCheck("after-victim", newDB(w, sc.LatestToday), "fresh", fl)
			if crashed && fl == nil && len(out.Violations) == 0 {
				// life goes on after the crash: a manual status update of the interrupted run (and of one other
				// run) is recorded by a new process; once acknowledged it is the run's last status, whatever the
				// killed process left at the end of the record
				var cands []*mRun
				for _, r := range h.m.runs {
					if !r.removed && r.acked > 0 {
						cands = append(cands, r)
					}
				}
				sort.SliceStable(cands, func(i, j int) bool { return cands[i].maxTried > cands[j].maxTried })
				if len(cands) > 2 {
					cands = cands[:2]
				}
				saved := h.crashInfo
				h.crashInfo = "update-after-" + saved
				for _, r := range cands {
					h.marker++
					mk := h.marker
					r.maxTried = mk
					if err := newDB(w, sc.LatestToday).Update(r.dag, r.id, mkStatus(r.id, "n", mk, dagsched.StatusError)); err == nil {
						r.acked = mk
						w.Probe("update_after_crash_acknowledged")
					} else {
						w.Probe("update_after_crash_refused")
					}
				}
				h.relaxedCheck("after-recovery-update", h.server, "cached", nil)
				h.relaxedCheck("after-recovery-update", newDB(w, sc.LatestToday), "fresh", nil)
				h.crashInfo = saved
			}
		})
		return res, h
	}

	// pass 1: fault-free, counts the victim's system calls
	res, _ := runWorld(nil, opts.Trace && reader)
	fillOutcome(out, res, opts)
	out.Evals = 1
	if len(res.Panics) > 0 {
		out.Violations = append(out.Violations, Violation{Prop: "C07", Clause: "panic", Disc: panicDisc(res.Panics[0]), Msg: res.Panics[0]})
	}
	n := len(victimSyscalls)
	if reader || n == 0 || out.Infra != "" {
		out.NonTrivial = reader && n > 0
		return out
	}
	// pass 2..: crash points
	var arms []armed
	if opts.Thorough {
		for k := 0; k < n; k++ {
			arms = append(arms, armed{k, 0, 0}, armed{k, 1, 0})
			if victimSyscalls[k] == "write" {
				for f := 0; f < 4; f++ {
					arms = append(arms, armed{k, 2, f})
				}
			}
		}
	} else {
		for i := 0; i < 6; i++ {
			arms = append(arms, armed{tp.Draw(simrt.SFault, n), tp.Draw(simrt.SFault, 3), tp.Draw(simrt.SFault, 4)})
		}
	}
	for i, a := range arms {
		sc.CrashAt = append(sc.CrashAt, a.k*10+a.mode)
		traceArm := len(arms) - 1
		if v := os.Getenv("VERIF_TRACE_ARM"); v != "" { // debugging aid: which crash point's world is traced in a replay
			fmt.Sscan(v, &traceArm)
		}
		r2, _ := runWorld(&a, opts.Trace && i == traceArm)
		out.Evals++
		out.Steps += r2.Steps
		out.FakeTime += r2.FakeTime
		out.TraceHash ^= r2.TraceHash * uint64(i+3)
		out.SchedSig ^= r2.SchedSig * uint64(i+3)
		for k, v := range r2.Stats.Faults {
			if out.Faults == nil {
				out.Faults = map[string]int{}
			}
			out.Faults[k] += v
		}
		for k, v := range r2.Stats.Probes {
			bump(out, k)
			_ = v
		}
		if opts.Trace && i == traceArm {
			out.Trace = r2.Trace
			out.Events = fmtEvents(r2.Events, 400)
		}
		if len(r2.Panics) > 0 {
			out.Violations = append(out.Violations, Violation{Prop: "C07", Clause: "panic", Disc: panicDisc(r2.Panics[0]), Msg: r2.Panics[0]})
		}
		if r2.Aborted != "" {
			out.Inconclusive = r2.Aborted
		}
	}
	out.NonTrivial = out.Probes["crash_landed"] > 0
	return out
}
