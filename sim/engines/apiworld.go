package engines

import (
	"fmt"
	"net/http"
	"net/http/httptest"
	"sort"
	"strings"

	"github.com/ErdemOzgen/blackdagger/internal/client"
	dagh "github.com/ErdemOzgen/blackdagger/internal/frontend/dag"
	"github.com/ErdemOzgen/blackdagger/internal/frontend/gen/restapi/operations"
	"github.com/ErdemOzgen/blackdagger/internal/frontend/gen/restapi/operations/dags"
	"github.com/ErdemOzgen/blackdagger/internal/logger"
	dsclient "github.com/ErdemOzgen/blackdagger/internal/persistence/client"
	"github.com/ErdemOzgen/blackdagger/internal/verifsim/simrt"
	"github.com/go-openapi/runtime"
)

// apiServer is what a server process holds: the real client over the real data
// stores and the real frontend/dag handler configured on a BlackdaggerAPI. The
// harness calls the generated operation handlers directly (no HTTP listener,
// no auth middleware: those are stubs, see DESIGN.md §6).
type apiServer struct {
	cli client.Client
	api *operations.BlackdaggerAPI
}

func newAPIServer() *apiServer {
	ds := dsclient.NewDataStores(dagsDir, dataDir, flagDir, dsclient.DataStoreOptions{LatestStatusToday: true})
	cli := client.New(ds, cliPath, workDir, logger.Default)
	api := &operations.BlackdaggerAPI{}
	dagh.NewHandler(&dagh.NewHandlerArgs{Client: cli}, nil, "").Configure(api)
	return &apiServer{cli: cli, api: api}
}

// apiResp is the outcome of one API call: HTTP status code and error message.
type apiResp struct {
	Code int
	Msg  string
	Body string
}

func (r apiResp) ok() bool { return r.Code >= 200 && r.Code < 300 }

// action posts one action on a DAG. action == nil models a body without the action field.
func (s *apiServer) action(dagID string, action *string, value, reqID, step, params string) apiResp {
	p := dags.PostDagActionParams{DagID: dagID, Body: dags.PostDagActionBody{Action: action, Value: value, RequestID: reqID, Step: step, Params: params}}
	switch r := s.api.DagsPostDagActionHandler.Handle(p).(type) {
	case *dags.PostDagActionOK:
		out := apiResp{Code: 200}
		if r.Payload != nil {
			out.Body = r.Payload.NewDagID
		}
		return out
	case *dags.PostDagActionDefault:
		return defaultResp(r, msgOf(r.Payload))
	default:
		return apiResp{Code: 599, Msg: fmt.Sprintf("unexpected responder %T", r)}
	}
}

func (s *apiServer) create(name string) apiResp {
	act := "new"
	p := dags.CreateDagParams{Body: dags.CreateDagBody{Action: &act, Value: &name}}
	switch r := s.api.DagsCreateDagHandler.Handle(p).(type) {
	case *dags.CreateDagOK:
		return apiResp{Code: 200}
	case *dags.CreateDagDefault:
		return defaultResp(r, msgOf(r.Payload))
	default:
		return apiResp{Code: 599, Msg: fmt.Sprintf("unexpected responder %T", r)}
	}
}

func (s *apiServer) delete(name string) apiResp {
	switch r := s.api.DagsDeleteDagHandler.Handle(dags.DeleteDagParams{DagID: name}).(type) {
	case *dags.DeleteDagOK:
		return apiResp{Code: 200}
	case *dags.DeleteDagDefault:
		return defaultResp(r, msgOf(r.Payload))
	default:
		return apiResp{Code: 599, Msg: fmt.Sprintf("unexpected responder %T", r)}
	}
}

func msgOf(p any) string {
	if p == nil {
		return ""
	}
	return strings.TrimSpace(mustJSON(p))
}

// defaultResp extracts the status code of a go-swagger "default" responder by rendering it.
func defaultResp(r interface {
	WriteResponse(rw http.ResponseWriter, p runtime.Producer)
}, msg string) apiResp {
	rec := httptest.NewRecorder()
	r.WriteResponse(rec, runtime.JSONProducer())
	return apiResp{Code: rec.Code, Msg: msg}
}

// dumpDir returns path -> content of all regular files below dir.
func dumpDir(w *simrt.World, dir string) map[string]string { return fsOf(w).Dump(dir) }

func sortedKeys[V any](m map[string]V) []string {
	var ks []string
	for k := range m {
		ks = append(ks, k)
	}
	sort.Strings(ks)
	return ks
}
