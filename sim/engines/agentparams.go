package engines

import (
	"fmt"
	"strings"
	"syscall"
	"testing"
	"time"

	"github.com/ErdemOzgen/blackdagger/internal/verifsim/simrt"
)

// C11: parameters and captured outputs reach the steps that use them, unchanged —
// within a run, in its handlers, and across processes (start -> retry -> retry of
// the retry -> restart), where they travel through the history file and are
// re-parsed. Observation is at the exec boundary: the argv and environment the
// simulated children actually received from the real command executor.

func init() {
	PropEngines["C11"] = struct {
		Engine   string
		Variants []string
	}{"agentsim", []string{"params"}}
}

type paramItem struct {
	Name  string `json:"name,omitempty"`
	Value string `json:"value"`
}

// value shapes of the documented syntax: bare words, "quoted values", NAME=value, NAME="quoted value"
var bareValues = []string{"v1", "alpha", "2024-01-31", "x.y", "/tmp/in", "a,b", "7"}
var quotedValues = []string{"two words", "a  b", "x=y", "k=v w", `say "hi"`, "tab\there", "héllo wörld", "trailing ", " leading", "it's"}

func genParamItems(tp *simrt.Tape) []paramItem {
	n := tp.Draw(simrt.SGen, 4)
	var out []paramItem
	for i := 0; i < n; i++ {
		it := paramItem{}
		if chance(tp, 1, 2) {
			it.Name = pick(tp, "FOO", "BAR", "P_X", "name1")
			for _, o := range out {
				if o.Name == it.Name {
					it.Name += fmt.Sprint(i)
				}
			}
		}
		if chance(tp, 1, 2) {
			it.Value = bareValues[tp.Draw(simrt.SGen, len(bareValues))]
		} else {
			it.Value = quotedValues[tp.Draw(simrt.SGen, len(quotedValues))]
		}
		out = append(out, it)
	}
	return out
}

func isBare(v string) bool {
	if v == "" {
		return false
	}
	return !strings.ContainsAny(v, " \t\"'=`")
}

// renderParams writes the items in the documented parameter syntax.
func renderParams(items []paramItem) string {
	var parts []string
	for _, it := range items {
		v := it.Value
		if !isBare(v) {
			v = `"` + strings.ReplaceAll(v, `"`, `\"`) + `"`
		}
		if it.Name != "" {
			v = it.Name + "=" + v
		}
		parts = append(parts, v)
	}
	return strings.Join(parts, " ")
}

func paramShape(items []paramItem) string {
	shape := "bare"
	for _, it := range items {
		switch {
		case strings.Contains(it.Value, `"`):
			return "quote-in-value"
		case strings.ContainsAny(it.Value, " \t"):
			shape = "space-in-value"
		case strings.Contains(it.Value, "=") && shape == "bare":
			shape = "equals-in-value"
		case !isBare(it.Value) && shape == "bare":
			shape = "quoted"
		}
	}
	return shape
}

var outTexts = []string{
	"plain", "  padded \n", "two words", "line1\nline2\n", `q"uote`, "it's", "a=b", "$HOME ${X} $1", `back\slash\n`, "héllo ✓ wörld", "\ttab\tsep\t", "\n\n", "", "x;y|z&w", "trailing\r\n",
	// backslash pairs in front of t, n, r (UNC paths, escaped Windows paths): the un-escaping of the command
	// text an author wrote must not reach into substituted values
	`\\nas01\share\reports`, `C:\\tools\\new\\run`, `a\\tb\\nc\\rd`,
}

func outShape(s string) string {
	t := strings.TrimSpace(s)
	switch {
	case len(s) > 60000:
		return "over-64k"
	case len(s) > 4000:
		return "over-4k"
	case t == "":
		return "blank"
	case strings.Contains(t, "\n"):
		return "multi-line"
	case strings.ContainsAny(t, `"'`):
		return "quotes"
	case strings.ContainsAny(t, "$\\"):
		return "dollar-backslash"
	case strings.Contains(t, " ") || strings.Contains(t, "\t"):
		return "spaces"
	case t != s:
		return "padded"
	}
	return "plain"
}

func genOutText(tp *simrt.Tape, salt string) string {
	switch tp.Draw(simrt.SGen, 8) {
	case 0:
		return salt + strings.Repeat("y", pick(tp, 4090, 4096, 5000)) + " end"
	case 1:
		return salt + strings.Repeat("z", pick(tp, 65530, 65536, 70000)) + "\n"
	}
	t := outTexts[tp.Draw(simrt.SGen, len(outTexts))]
	if strings.TrimSpace(t) == "" {
		return t
	}
	// salt: the value is attributable to one execution of one producer. It goes in front or behind, so that
	// values also begin with '=', digits, upper-case letters, underscores or the characters of their own
	// variable's name
	switch tp.Draw(simrt.SGen, 3) {
	case 0:
		return salt + t
	case 1:
		return pick(tp, "=", "==> ", "OUT_", "T", "0", "_x", "P0:", "OUT_p0=") + t + " #" + salt
	}
	return t + " #" + salt
}

type paramScenario struct {
	Items     []paramItem `json:"items"`
	ViaFlag   bool        `json:"viaFlag"`
	Wrapped   bool        `json:"wrapped"` // -p "<params>" as client.Start, sub-workflows and the repository's tests pass it
	Defaults  []paramItem `json:"defaults,omitempty"`
	NRetries  int         `json:"nRetries"`
	Restart   bool        `json:"restart"`
	Producers []string    `json:"producers"`
	OutTexts  [][]string  `json:"-"`
}

func agentParams(t *testing.T, tp *simrt.Tape, cfg simrt.Config, sc *agentScenario, out *Outcome, opts RunOpts) *Outcome {
	ps := &paramScenario{}
	ps.ViaFlag = chance(tp, 2, 3)
	ps.Items = genParamItems(tp)
	if !ps.ViaFlag || chance(tp, 1, 3) {
		ps.Defaults = genParamItems(tp)
	}
	if !ps.ViaFlag {
		ps.Items = ps.Defaults
	}
	ps.Wrapped = !chance(tp, 1, 4)
	ps.NRetries = tp.Draw(simrt.SGen, 3)
	ps.Restart = chance(tp, 1, 2)
	nProc := 1 + ps.NRetries
	if ps.Restart {
		nProc++
	}
	// ---- the DAG: producers, a consumer before the failing step, the failing step F, consumers and a late producer after it
	nProd := 1 + tp.Draw(simrt.SGen, 2)
	d := &DagSpec{File: "wf", Params: renderParams(ps.Defaults), MaxActiveRuns: pick(tp, 0, 1, 2)}
	argRefs := func(prods []string) []string {
		var a []string
		for i := range ps.Items {
			if ps.Items[i].Name == "" {
				a = append(a, fmt.Sprintf(`"$%d"`, i+1))
			} else {
				a = append(a, fmt.Sprintf(`"${%s}"`, ps.Items[i].Name))
			}
		}
		for _, p := range prods {
			a = append(a, fmt.Sprintf(`"${OUT_%s}"`, p))
		}
		return a
	}
	var prods []string
	for i := 0; i < nProd; i++ {
		s := StepSpec{Name: fmt.Sprintf("p%d", i), RetryLimit: -1, Output: fmt.Sprintf("OUT_p%d", i), DurMs: []int{pick(tp, 0, 20, 120)}}
		if i > 0 && chance(tp, 1, 2) {
			s.Depends = []string{"p0"}
		}
		if chance(tp, 1, 3) {
			// a producer that succeeds at its second attempt: what is captured is what that attempt printed
			s.RetryLimit = 1
		}
		d.Steps = append(d.Steps, s)
		prods = append(prods, s.Name)
	}
	withArgs := chance(tp, 2, 3)
	mk := func(name string, deps []string, seen []string) StepSpec {
		s := StepSpec{Name: name, RetryLimit: -1, Depends: deps, DurMs: []int{pick(tp, 0, 20, 120)}}
		if withArgs {
			s.Args = argRefs(seen)
		}
		return s
	}
	d.Steps = append(d.Steps, mk("cpre", append([]string{}, prods...), prods))
	fdeps := []string{prods[tp.Draw(simrt.SGen, len(prods))]}
	if chance(tp, 1, 2) {
		fdeps = append([]string{}, prods...)
	}
	d.Steps = append(d.Steps, mk("f", fdeps, fdeps))
	late := StepSpec{Name: "plate", RetryLimit: -1, Depends: []string{"f"}, Output: "OUT_plate", DurMs: []int{pick(tp, 0, 30)}}
	d.Steps = append(d.Steps, late)
	allProds := append(append([]string{}, prods...), "plate")
	d.Steps = append(d.Steps, mk("cpost", []string{"plate", "cpre"}, allProds))
	if chance(tp, 1, 2) {
		// a non-adjacent consumer: two hops after the producers
		d.Steps = append(d.Steps, mk("cfar", []string{"cpost"}, allProds))
	}
	if chance(tp, 1, 3) {
		// the "declare a default, let a step replace it" idiom: the DAG's env: gives the name of a captured
		// output a default value; every step after the producer must see the captured value, not the default
		for _, p := range allProds {
			if chance(tp, 1, 2) {
				d.Env = append(d.Env, "OUT_"+p+"=declared-default-of-"+p)
			}
		}
		bump(out, "output_name_has_declared_default")
	}
	d.Handlers = map[string]*HandlerSpec{"exit": {}}
	for _, k := range []string{"success", "failure"} {
		if chance(tp, 1, 2) {
			d.Handlers[k] = &HandlerSpec{}
		}
	}
	ps.Producers = allProds
	// per process: fresh output texts, F fails in every process of the lineage but (possibly) the last retry
	specs := make([]*DagSpec, nProc)
	lastRetryOK := chance(tp, 3, 4)
	for k := 0; k < nProc; k++ {
		sp := cloneSpec(d)
		for i := range sp.Steps {
			s := &sp.Steps[i]
			if s.Output != "" {
				s.OutText = genOutText(tp, fmt.Sprintf("k%d%s:", k, s.Name))
				if s.RetryLimit > 0 {
					s.FailFirst = 1
					bump(out, "producer_succeeds_at_second_attempt")
				}
			}
			if s.Name == "f" {
				isLastRetry := k == ps.NRetries
				isRestart := ps.Restart && k == nProc-1
				switch {
				case isRestart:
					s.FailFirst = 0
				case isLastRetry && lastRetryOK:
					s.FailFirst = 0
				default:
					s.FailFirst = -1
				}
			}
		}
		specs[k] = sp
	}
	sc.Dag = d
	out.Sample = map[string]any{"variant": "params", "sched": sc.Sched, "params": ps, "dag": d, "rendered": renderParams(ps.Items)}

	var cw *cliWorld
	var procs []*cliProc
	kinds := []string{}
	chk := &agentCheck{out: out, prop: "C11"}
	path := dagPath(d)
	hung := ""
	// fault "compaction_write_error": in a third of the lineages the disk is full when a run's record is
	// compacted at its end (writing the compacted file fails). The run's record must survive that:
	// a later retry or restart takes its parameters and outputs from it
	if (ps.NRetries > 0 || ps.Restart) && chance(tp, 1, 3) {
		cfg.FaultPlan = func(op *simrt.OpInfo) simrt.Fault {
			if op.Kind != "write" || !strings.HasSuffix(op.Path, "_c.dat") || !tp.Chance(simrt.SFault, 1, 2) {
				return simrt.Fault{}
			}
			op.Proc.W.CountFault("compaction_write_error")
			return simrt.Fault{Kind: simrt.FErr, Errno: syscall.ENOSPC}
		}
	}
	res := simrt.Run(t, cfg, func(w *simrt.World) {
		cw = newCLIWorld(w, tp)
		fsOf(w).PutFile(path, []byte(d.YAML()), 0o644)
		args := []string{"start"}
		if ps.ViaFlag {
			p := renderParams(ps.Items)
			if ps.Wrapped {
				p = `"` + p + `"`
			}
			args = append(args, "-p", p)
		}
		args = append(args, path)
		first := cw.run(specs[0], nil, args...)
		procs = append(procs, first)
		kinds = append(kinds, "start")
		if !waitProcTimeout(first.proc, 30*time.Minute) {
			hung = "start"
			return
		}
		last := first
		for r := 1; r <= ps.NRetries; r++ {
			simrt.Sleep(time.Duration(pick(tp, 5, 1100)) * time.Millisecond)
			rec, _ := persistedStatusOf(nil, cw, last)
			if rec == nil {
				ran := false
				for _, r := range cw.truth.Runs {
					if r.AgentPid == last.proc.Pid {
						ran = true
					}
				}
				if last.proc.Signaled == "" && ran {
					chk.viol("run-record-lost", kinds[len(kinds)-1], "the %s process ended (exit %d) but no record of its run is left: a retry cannot get its parameters and outputs", kinds[len(kinds)-1], last.proc.ExitCode)
				}
				return
			}
			rp := cw.run(specs[r], nil, "retry", "--req="+rec.RequestID, path)
			procs = append(procs, rp)
			kinds = append(kinds, "retry")
			if !waitProcTimeout(rp.proc, 30*time.Minute) {
				hung = "retry"
				return
			}
			last = rp
		}
		if ps.Restart {
			simrt.Sleep(time.Duration(pick(tp, 5, 1100)) * time.Millisecond)
			rs := cw.run(specs[nProc-1], nil, "restart", path)
			procs = append(procs, rs)
			kinds = append(kinds, "restart")
			if !waitProcTimeout(rs.proc, 30*time.Minute) {
				hung = "restart"
			}
		}
	})
	finishOutcome(out, res, opts, "C11")
	if out.Infra != "" || cw == nil {
		return out
	}
	cw.truth.Finalize(res.Events)
	if hung != "" {
		big := "small-output"
		for _, sp := range specs {
			for _, s := range sp.Steps {
				if len(s.OutText) > 60000 {
					big = "output-over-64k"
				}
			}
		}
		chk.viol("run-hangs", hung+"/"+big, "the %s process did not end within 30 simulated minutes", hung)
		return out
	}
	out.NonTrivial = len(cw.truth.Runs) > 2
	pshape := paramShape(ps.Items)
	if r := renderParams(ps.Items); ps.ViaFlag && !ps.Wrapped && len(r) > 1 && r[0] == '"' && r[len(r)-1] == '"' {
		// typed directly, and the whole string begins and ends with a quote character
		pshape = "direct-cli-quote-delimited"
		bump(out, "direct_cli_quote_delimited")
	}
	// ---- lineage of output values: start -> retries share one lineage; restart begins a new one
	lineage := map[string]string{}
	have := map[string]bool{}
	for k, cp := range procs {
		kind := kinds[k]
		if kind == "restart" {
			lineage, have = map[string]string{}, map[string]bool{}
		}
		sp := specs[k]
		if kind == "restart" {
			sp = specs[nProc-1]
		}
		// producers that executed in this process update the lineage (dependency order = declaration order here)
		executed := map[string]*StepRun{}
		for _, r := range cw.truth.Runs {
			if r.AgentPid == cp.proc.Pid {
				executed[r.Name] = r
			}
		}
		if len(executed) == 0 {
			chk.viol("nothing-executed", kind, "the %s process (exit %d) executed no command: %s", kind, cp.proc.ExitCode, lastLines(cp.proc, 2))
			continue
		}
		bump(out, "process_"+kind)
		for _, p := range ps.Producers {
			if r := executed[p]; r != nil && r.EndSeq != 0 {
				lineage["OUT_"+p] = strings.TrimSpace(sp.Step(p).OutText)
				have["OUT_"+p] = true
			}
		}
		for name, r := range executed {
			isHandler := strings.HasPrefix(name, "on_")
			role := "step"
			if isHandler {
				role = "handler"
			}
			// -- parameters
			for i, it := range ps.Items {
				if it.Name == "" {
					if got, ok := r.Env[fmt.Sprint(i+1)]; !ok || got != it.Value {
						chk.viol("param-positional", pshape+"/"+kind, "%s %s of the %s process saw $%d = %q, given %q (parameters: %s)", role, name, kind, i+1, got, it.Value, renderParams(ps.Items))
					}
				} else if got, ok := r.Env[it.Name]; !ok || got != it.Value {
					chk.viol("param-named", pshape+"/"+kind, "%s %s of the %s process saw $%s = %q, given %q (parameters: %s)", role, name, kind, it.Name, got, it.Value, renderParams(ps.Items))
				}
			}
			if len(ps.Items) > 0 {
				bump(out, "params_checked_"+kind)
			}
			// -- outputs of the producers this consumer runs after
			var after []string
			if isHandler {
				for _, p := range ps.Producers {
					after = append(after, p)
				}
			} else if s := d.Step(name); s != nil {
				after = upstreamProducers(d, name)
			}
			for _, p := range after {
				key := "OUT_" + p
				if !have[key] {
					continue
				}
				want := lineage[key]
				from := "this-process"
				if executed[p] == nil {
					from = "recorded-run"
				}
				if got, ok := r.Env[key]; !ok || got != want {
					chk.viol("output-not-visible", kind+"/"+role+"/"+from+"/"+outShape(want), "%s %s of the %s process saw $%s = %s (set: %v), the producing step printed %s", role, name, kind, key, abbrev(got), ok, abbrev(want))
				} else {
					bump(out, "output_seen_"+from)
					if isHandler {
						bump(out, "output_seen_by_handler")
					}
					if len(want) > 60000 {
						bump(out, "output_over_64k_seen")
					}
				}
			}
			// -- argv: the references in the command line expand to the same values
			if s := d.Step(name); s != nil && len(s.Args) > 0 && len(r.Argv) == 2+len(s.Args) {
				for i, ref := range s.Args {
					want, known := "", false
					inner := strings.Trim(ref, `"${}`)
					for j, it := range ps.Items {
						if (it.Name == "" && inner == fmt.Sprint(j+1)) || (it.Name != "" && inner == it.Name) {
							want, known = it.Value, true
						}
					}
					if strings.HasPrefix(inner, "OUT_") && have[inner] {
						want, known = lineage[inner], true
					}
					if known && r.Argv[2+i] != want {
						cl := "argv-param"
						disc := pshape + "/" + kind
						if strings.HasPrefix(inner, "OUT_") {
							cl, disc = "argv-output", kind+"/"+outShape(want)
						}
						chk.viol(cl, disc, "step %s of the %s process: argument %s expanded to %s, expected %s", name, kind, ref, abbrev(r.Argv[2+i]), abbrev(want))
					}
				}
				bump(out, "argv_checked")
			}
		}
	}
	return out
}

func abbrev(s string) string {
	if len(s) > 80 {
		return fmt.Sprintf("%q…(%d bytes)", s[:60], len(s))
	}
	return fmt.Sprintf("%q", s)
}

// upstreamProducers lists the output-capturing steps that name transitively depends on.
func upstreamProducers(d *DagSpec, name string) []string {
	seen := map[string]bool{}
	var out []string
	var walk func(n string)
	walk = func(n string) {
		s := d.Step(n)
		if s == nil {
			return
		}
		for _, dep := range s.Depends {
			if seen[dep] {
				continue
			}
			seen[dep] = true
			if ds := d.Step(dep); ds != nil && ds.Output != "" {
				out = append(out, dep)
			}
			walk(dep)
		}
	}
	walk(name)
	return out
}
