package engines

import (
	"encoding/json"
	"fmt"
	"syscall"
	"sort"
	"strings"
	"testing"
	"time"

	"github.com/ErdemOzgen/blackdagger/cmd"
	"github.com/ErdemOzgen/blackdagger/internal/client"
	"github.com/ErdemOzgen/blackdagger/internal/dag"
	dagsched "github.com/ErdemOzgen/blackdagger/internal/dag/scheduler"
	"github.com/ErdemOzgen/blackdagger/internal/logger"
	dsclient "github.com/ErdemOzgen/blackdagger/internal/persistence/client"
	"github.com/ErdemOzgen/blackdagger/internal/persistence/jsondb"
	"github.com/ErdemOzgen/blackdagger/internal/persistence/model"
	daemon "github.com/ErdemOzgen/blackdagger/internal/scheduler"
	"github.com/ErdemOzgen/blackdagger/internal/util"
	"github.com/ErdemOzgen/blackdagger/internal/verifsim/simexec"
	"github.com/ErdemOzgen/blackdagger/internal/verifsim/simos"
	"github.com/ErdemOzgen/blackdagger/internal/verifsim/simrt"
)

// agentsim runs the real CLI closures (cmd start / retry / restart / stop) as
// simulated processes, with observers over the real client.

func init() {
	register("agentsim", agentsim)
	PropEngines["C08"] = struct {
		Engine   string
		Variants []string
	}{"agentsim", []string{"status", "crash"}}
	PropEngines["C16"] = struct {
		Engine   string
		Variants []string
	}{"agentsim", []string{"dual"}}
	PropEngines["C10"] = struct {
		Engine   string
		Variants []string
	}{"agentsim", []string{"retry"}}
}

const cliPath = "/sim/bin/blackdagger"

type cliProc struct {
	idx    int
	proc   *simrt.Proc
	args   []string
	spec   *DagSpec
	sub    string
	bindSeq, unbindSeq uint64
	probeSeq uint64
}

type cliWorld struct {
	w      *simrt.World
	truth  *Truth
	procs  []*cliProc
	byPid  map[int]*cliProc
	tp     *simrt.Tape
	// specFor scripts the step children of CLI processes that blackdagger itself spawned (client.Start,
	// Retry, Restart from a server or the daemon): given the DAG file path, it returns that invocation's script.
	specFor func(path string, sub string) *DagSpec
}

// adopt registers a CLI process that was not started by the harness.
func (cw *cliWorld) adopt(pc *simexec.ProcCtx) {
	if cw.byPid[pc.Proc.Pid] != nil || len(pc.Args) < 2 {
		return
	}
	cp := &cliProc{idx: len(cw.procs), proc: pc.Proc, args: append([]string{}, pc.Args[1:]...), sub: pc.Args[1]}
	if cw.specFor != nil && (cp.sub == "start" || cp.sub == "retry" || cp.sub == "restart") {
		cp.spec = cw.specFor(pc.Args[len(pc.Args)-1], cp.sub)
	}
	cw.procs = append(cw.procs, cp)
	cw.byPid[pc.Proc.Pid] = cp
}

func newCLIWorld(w *simrt.World, tp *simrt.Tape) *cliWorld {
	cw := &cliWorld{w: w, truth: NewTruth(), byPid: map[int]*cliProc{}, tp: tp}
	seedIDs(tp)
	dagsched.VerifResetNodeIDs()
	cmd.VerifResetSignalChan()
	setupDirs(w)
	curTruth = cw.truth
	cw.truth.Behaviour = func(pc *simexec.ProcCtx, name string) *StepSpec {
		if pc == nil {
			return nil
		}
		if cp := cw.byPid[pc.Proc.PPid]; cp != nil && cp.spec != nil {
			return cp.spec.Step(name)
		}
		return nil
	}
	cw.truth.Handler = func(pc *simexec.ProcCtx, name string) *HandlerSpec {
		if cp := cw.byPid[pc.Proc.PPid]; cp != nil && cp.spec != nil {
			return cp.spec.Handlers[name]
		}
		return nil
	}
	simexec.Register(w, "/sim/bin/simstep", cw.truth.StepProgram)
	simexec.Register(w, cliPath, func(pc *simexec.ProcCtx) int {
		cw.adopt(pc)
		return cmd.VerifRun(pc.Args[1:])
	})
	return cw
}

// run starts `blackdagger <args...>` as a simulated process; spec scripts its step children.
func (cw *cliWorld) run(spec *DagSpec, extraEnv []string, args ...string) *cliProc {
	env := baseEnv(nil)
	if spec != nil {
		env = append(env, spec.CondEnv()...)
	}
	env = append(env, extraEnv...)
	cp := &cliProc{idx: len(cw.procs), args: args, spec: spec, sub: args[0]}
	c := simexec.Command(cliPath, args...)
	c.Env = env
	c.Dir = workDir
	if err := c.Start(); err != nil {
		panic("agentsim: cannot start CLI: " + err.Error())
	}
	cp.proc = c.Process.Impl.(*simrt.Proc)
	cw.procs = append(cw.procs, cp)
	cw.byPid[cp.proc.Pid] = cp
	return cp
}

// noteOp records socket probe/bind/unbind instants of CLI processes (called from Config.OnOp).
func (cw *cliWorld) noteOp(op *simrt.OpInfo) {
	cp := cw.byPid[op.Proc.Pid]
	if cp == nil || !strings.HasSuffix(op.Path, ".sock") {
		return
	}
	seq := cw.w.NextSeq()
	switch op.Kind {
	case "connect":
		if cp.probeSeq == 0 {
			cp.probeSeq = seq
		}
	case "bind":
		cp.bindSeq = seq
	case "close":
		if cp.bindSeq != 0 && cp.unbindSeq == 0 {
			cp.unbindSeq = seq
		}
	}
}

func newObserverClient() client.Client {
	ds := dsclient.NewDataStores(dagsDir, dataDir, flagDir, dsclient.DataStoreOptions{LatestStatusToday: true})
	return client.New(ds, cliPath, workDir, logger.Default)
}

func reapOrphans(w *simrt.World) int {
	n := 0
	for _, p := range w.LiveProcs() {
		if strings.HasPrefix(p.Name, "simstep") {
			w.KillProc(p, "reaped")
			n++
		}
	}
	return n
}

type observation struct {
	Kind     string
	Inv, Ret uint64
	InvAt    time.Duration
	RetAt    time.Duration
	St       *model.Status
	Err      error
}

type agentScenario struct {
	Variant   string   `json:"variant"`
	Sched     SchedCfg `json:"sched"`
	Dag       *DagSpec `json:"dag"`
	Second    *DagSpec `json:"second,omitempty"` // scripts of the second invocation (retry / restart after crash)
	KillAt    int      `json:"killAt,omitempty"`
	KillMode  int      `json:"killMode,omitempty"`
	FirstEnd  string   `json:"firstEnd,omitempty"`
	StopAt    int      `json:"stopAt,omitempty"`
	SecondAt  int      `json:"secondAt,omitempty"`
	SecondSub string   `json:"secondSub,omitempty"`
	NStarts   int      `json:"nStarts,omitempty"`
	ObsGapMs  []int    `json:"obsGapMs,omitempty"`
	EditDag   bool     `json:"editDag,omitempty"`
}

func cloneSpec(d *DagSpec) *DagSpec {
	c := *d
	c.Steps = append([]StepSpec{}, d.Steps...)
	for i := range c.Steps {
		c.Steps[i].Depends = append([]string{}, d.Steps[i].Depends...)
		c.Steps[i].DurMs = append([]int{}, d.Steps[i].DurMs...)
	}
	if d.Handlers != nil {
		c.Handlers = map[string]*HandlerSpec{}
		for k, v := range d.Handlers {
			h := *v
			c.Handlers[k] = &h
		}
	}
	return &c
}

func agentsim(t *testing.T, tp *simrt.Tape, opts RunOpts) *Outcome {
	out := &Outcome{}
	sc := &agentScenario{Variant: opts.Variant}
	schedCfg, cfg := drawSchedCfg(tp, true)
	sc.Sched = schedCfg
	cfg.TraceOps = opts.Trace
	cfg.MaxFakeTime = 3 * time.Hour
	cfg.MaxSteps = 1_500_000
	// the status protocol has a 3 s client timeout by design: a peer that is not scheduled for longer
	// than that is reported as not answering, which no property forbids. Stalls stay below it.
	cfg.MaxStall = 2 * time.Second
	if cfg.LatencyScale > 1 {
		cfg.LatencyScale = 1
	}
	g := stepGenOpts{maxSteps: 6, allowRetry: true, allowPre: true, handlers: true, outputs: true}
	if opts.Thorough {
		g.maxSteps = 9
	}
	sc.Dag = genDag(tp, g)
	out.Sample = sc
	switch sc.Variant {
	case "status", "crash":
		return agentStatus(t, tp, cfg, sc, out, opts)
	case "dual":
		return agentDual(t, tp, cfg, sc, out, opts)
	case "retry":
		return agentRetry(t, tp, cfg, sc, out, opts)
	case "params":
		return agentParams(t, tp, cfg, sc, out, opts)
	}
	out.Infra = "unknown variant " + sc.Variant
	return out
}

type agentCheck struct {
	out  *Outcome
	prop string
}

func (c *agentCheck) viol(clause, disc, format string, a ...any) {
	c.out.Violations = append(c.out.Violations, Violation{Prop: c.prop, Clause: clause, Disc: disc, Msg: fmt.Sprintf(format, a...)})
}

func finishOutcome(out *Outcome, res *simrt.Result, opts RunOpts, prop string) {
	fillOutcome(out, res, opts)
	for _, p := range res.Panics {
		out.Violations = append(out.Violations, Violation{Prop: prop, Clause: "panic", Disc: panicDisc(p), Msg: p})
		break
	}
}

// ---------------------------------------------------------------------------
// C08

func agentStatus(t *testing.T, tp *simrt.Tape, cfg simrt.Config, sc *agentScenario, out *Outcome, opts RunOpts) *Outcome {
	crash := sc.Variant == "crash"
	prior := false
	if crash {
		sc.KillAt = tp.Draw(simrt.SFault, 420)
		// modes 0/1: before/after the KillAt-th system call of the agent; modes 2/3: before/after its
		// (KillAt mod 6)-th call on a compacted record file or unlink of a record file — the few calls of the
		// end-of-run compaction, which a uniformly drawn index hardly ever hits
		// modes 4/5: before/after its (KillAt mod 12)-th call after a handler command has started — the run's
		// steps are over, its handlers are not
		sc.KillMode = tp.Draw(simrt.SFault, 6)
		prior = chance(tp, 1, 3) // an earlier, successful run of the same DAG exists
		sc.Second = cloneSpec(sc.Dag)
		for i := range sc.Second.Steps {
			sc.Second.Steps[i].FailFirst = 0
			sc.Second.Steps[i].Precond = 0
			sc.Second.Steps[i].DurMs = []int{10}
		}
		sc.Second.DagPrecond = 0
	}
	// a quarter of the status scenarios are quiet: no injected stalls or latencies, and retries that wait
	// longer than the status protocol's 3 s client timeout. There a status query that runs into that timeout
	// while the run's socket is listening has no excuse
	quiet := !crash && chance(tp, 1, 4)
	if quiet {
		cfg.PreemptDelayNum, cfg.LatencyScale = 0, 0
		sc.Sched.StallPerM, sc.Sched.LatScale = 0, 0
		for i := range sc.Dag.Steps {
			st := &sc.Dag.Steps[i]
			if st.RetryLimit > 0 {
				st.RetryInterval = pick(tp, 4, 5)
				if st.FailFirst == 0 {
					st.FailFirst = 1
				}
			}
		}
	}
	if chance(tp, 1, 6) {
		// a large status document (the live status carries every step with its script): well over 64 KiB
		i := tp.Draw(simrt.SGen, len(sc.Dag.Steps))
		sc.Dag.Steps[i].Script = "#!/bin/sh\n# " + strings.Repeat("long inline script ", 4000) + "\nrun " + sc.Dag.Steps[i].Name + "\n"
		if sc.Second != nil {
			sc.Second.Steps[i].Script = sc.Dag.Steps[i].Script
		}
		bump(out, "status_document_over_64k")
	}
	nObs := 4 + tp.Draw(simrt.SGen, 10)
	for i := 0; i < nObs; i++ {
		sc.ObsGapMs = append(sc.ObsGapMs, pick(tp, 0, 1, 5, 30, 90, 100, 101, 250, 800))
	}
	if quiet {
		for i := 0; i < 6; i++ {
			sc.ObsGapMs = append(sc.ObsGapMs, pick(tp, 400, 800, 1300))
		}
	}
	var cw *cliWorld
	var first *cliProc
	var obs []observation
	var after []observation
	var restart *cliProc
	var jobErr error
	jobTried := false
	killed := false
	priorPid := 0
	chk := &agentCheck{out: out, prop: "C08"}
	cfg.OnOp = func(op *simrt.OpInfo) {
		if cw != nil {
			cw.noteOp(op)
		}
	}
	if crash {
		nCompact, nAfterHandler := 0, 0
		handlerSeen := false
		cfg.FaultPlan = func(op *simrt.OpInfo) simrt.Fault {
			if first != nil && !handlerSeen && sc.KillMode >= 4 && cw != nil {
				for _, r := range cw.truth.Runs {
					if r.AgentPid == first.proc.Pid && strings.HasPrefix(r.Name, "on_") {
						handlerSeen = true
					}
				}
			}
			if killed || first == nil || op.Proc != first.proc {
				return simrt.Fault{}
			}
			if sc.KillMode < 2 {
				if op.Index != sc.KillAt {
					return simrt.Fault{}
				}
			} else if sc.KillMode >= 4 {
				if !handlerSeen {
					return simrt.Fault{}
				}
				nAfterHandler++
				if nAfterHandler-1 != sc.KillAt%12 {
					return simrt.Fault{}
				}
				op.Proc.W.Probe("killed_during_handlers")
			} else {
				if !(strings.Contains(op.Path, "_c.dat") || (op.Kind == "unlink" && strings.HasSuffix(op.Path, ".dat"))) {
					return simrt.Fault{}
				}
				nCompact++
				if nCompact-1 != sc.KillAt%6 {
					return simrt.Fault{}
				}
				op.Proc.W.Probe("killed_during_compaction")
			}
			killed = true
			if sc.KillMode%2 == 0 {
				return simrt.Fault{Kind: simrt.FKillBefore}
			}
			return simrt.Fault{Kind: simrt.FKillAfter}
		}
	}
	acceptFaultOn := false
	if !crash && chance(tp, 1, 3) {
		acceptFaultOn = true
		// fault "accept_error": one accept(2) on the run's status socket fails with a transient error (the
		// process is momentarily out of descriptors); the run must stay reachable and be reported live
		acceptErrAt := tp.Draw(simrt.SFault, 4)
		nAccept := 0
		cfg.FaultPlan = func(op *simrt.OpInfo) simrt.Fault {
			if op.Kind != "accept" || first == nil || op.Proc != first.proc {
				return simrt.Fault{}
			}
			nAccept++
			if nAccept-1 != acceptErrAt {
				return simrt.Fault{}
			}
			return simrt.Fault{Kind: simrt.FErr, Errno: syscall.EMFILE}
		}
	}
	path := dagPath(sc.Dag)
	res := simrt.Run(t, cfg, func(w *simrt.World) {
		cw = newCLIWorld(w, tp)
		fsOf(w).PutFile(path, []byte(sc.Dag.YAML()), 0o644)
		if prior {
			ok := cloneSpec(sc.Dag)
			for i := range ok.Steps {
				ok.Steps[i].FailFirst, ok.Steps[i].Precond, ok.Steps[i].DurMs = 0, 0, []int{5}
			}
			ok.DagPrecond = 0
			p0 := cw.run(ok, allCondsMet(sc.Dag), "start", path)
			if !waitProcTimeout(p0.proc, 30*time.Minute) {
				return
			}
			priorPid = p0.proc.Pid
			simrt.Sleep(time.Duration(pick(tp, 20, 1500)) * time.Millisecond)
		}
		first = cw.run(sc.Dag, nil, "start", path)
		// observer process
		observer := w.Spawn(simrt.CurProc(), "observer", []string{"observer"}, baseEnv(nil), workDir, true, func(p *simrt.Proc) int {
			cli := newObserverClient()
			wf := &dag.DAG{Location: path, Name: sc.Dag.File}
			for i := 0; i < len(sc.ObsGapMs); i++ {
				simrt.Sleep(time.Duration(sc.ObsGapMs[i]) * time.Millisecond)
				o := observation{Kind: "latest", Inv: w.NextSeq(), InvAt: w.Now()}
				o.St, o.Err = cli.GetLatestStatus(wf)
				o.Ret = w.NextSeq()
				o.RetAt = w.Now()
				obs = append(obs, o)
				if !first.proc.Alive() && i > 1 {
					break
				}
			}
			return 0
		})
		exited := waitProcTimeout(first.proc, 30*time.Minute)
		simexec.WaitProc(observer)
		if !exited {
			chk.viol("no-termination", sc.Variant, "the run did not end within 30 simulated minutes")
			return
		}
		if crash && killed {
			bump(out, "agent_killed")
			reapOrphans(w)
			simrt.Sleep(time.Duration(pick(tp, 1, 50, 900, 3000)) * time.Millisecond)
			inProc(w, "observer2", func() {
				cli := newObserverClient()
				wf := &dag.DAG{Location: path, Name: sc.Dag.File}
				for _, k := range []string{"latest", "current"} {
					o := observation{Kind: k, Inv: w.NextSeq(), InvAt: w.Now()}
					if k == "latest" {
						o.St, o.Err = cli.GetLatestStatus(wf)
					} else {
						o.St, o.Err = cli.GetCurrentStatus(wf)
					}
					o.Ret = w.NextSeq()
					after = append(after, o)
				}
			})
			// it can be started again
			restart = cw.run(sc.Second, allCondsMet(sc.Dag), "start", path)
			if !waitProcTimeout(restart.proc, 30*time.Minute) {
				chk.viol("restart-after-crash-hangs", "start", "a new start after the crash did not end")
				return
			}
			// and the daemon keeps handling it: the real start guard for the next minute
			simrt.Sleep(61 * time.Second)
			inProc(w, "daemonjob", func() {
				cli := newObserverClient()
				wf, err := dag.LoadMetadata(path)
				if err != nil {
					jobErr = err
					return
				}
				jobTried = true
				next := time.Now().Truncate(time.Minute)
				jobErr = daemon.VerifJobStart(wf, next, cli)
			})
		}
	})
	finishOutcome(out, res, opts, "C08")
	if out.Infra != "" || cw == nil {
		return out
	}
	cw.truth.Finalize(res.Events)
	out.NonTrivial = len(cw.truth.Runs) >= 1 && len(obs) >= 2

	firstRuns := func(name string) []*StepRun { return cw.truth.RunsOf(first.proc.Pid, name) }
	var exitSeq uint64
	for _, e := range res.Events {
		if e.Kind == "proc_exit" && int(e.N) == first.proc.Pid {
			exitSeq = e.Seq
		}
	}
	reqID := ""
	// ---- live observations
	for _, o := range obs {
		if o.RetAt-o.InvAt >= 2900*time.Millisecond {
			// the query ran into the protocol's 3 s client timeout (the peer was not scheduled in time):
			// the answer then comes from the persisted history, by design
			bump(out, "observation_hit_client_timeout")
			if quiet && !acceptFaultOn && first.bindSeq != 0 && o.Inv > first.bindSeq && (first.unbindSeq == 0 || o.Ret < first.unbindSeq) && (exitSeq == 0 || o.Ret < exitSeq) {
				chk.viol("live-status-timeout", "no-stalls", "a status query took %v and ran into the client timeout while the run's socket was listening and nothing was stalled: the run did not answer", o.RetAt-o.InvAt)
			}
			continue
		}
		if o.Err != nil {
			if first.bindSeq != 0 && o.Inv > first.bindSeq && (first.unbindSeq == 0 || o.Ret < first.unbindSeq) && (exitSeq == 0 || o.Ret < exitSeq) {
				chk.viol("live-status-error", "while-running", "GetLatestStatus failed while the run was in progress: %v", o.Err)
			}
			continue
		}
		st := o.St
		live := first.bindSeq != 0 && o.Inv > first.bindSeq && (first.unbindSeq == 0 || o.Ret < first.unbindSeq) && (exitSeq == 0 || o.Ret < exitSeq)
		if live {
			bump(out, "observed_while_listening")
			if st.Status.String() != "running" {
				chk.viol("live-not-running", st.Status.String(), "while the run's socket was listening the DAG was reported %q (request %s)", st.Status.String(), st.RequestID)
			}
			if reqID == "" {
				reqID = st.RequestID
			} else if st.RequestID != reqID {
				chk.viol("live-request-id-changed", "id", "live status reported request %s, earlier %s", st.RequestID, reqID)
			}
		}
		if st.RequestID == "" || (exitSeq != 0 && o.Ret >= exitSeq) {
			continue // per-step truthfulness is judged while the run's process is alive; afterwards the final record is
		}
		if int(st.PID) != first.proc.Pid {
			continue // the answer describes an earlier run of the DAG (this one has not recorded anything yet)
		}
		for _, n := range st.Nodes {
			spec := sc.Dag.Step(n.Step.Name)
			if spec == nil {
				continue
			}
			rs := firstRuns(n.Step.Name)
			endedOK, endedFail, open := false, false, false
			started := 0
			for _, r := range rs {
				if r.StartSeq < o.Ret {
					started++
				}
				if r.EndSeq != 0 && r.EndSeq < o.Ret {
					if r.Code == 0 && r.Signaled == "" {
						endedOK = true
					} else {
						endedFail = true
					}
				}
				if r.StartSeq < o.Inv && (r.EndSeq == 0 || r.EndSeq > o.Ret) {
					open = true
				}
			}
			switch lbl := n.Status.String(); lbl {
			case "finished":
				if !endedOK {
					chk.viol("reported-finished-early", "live", "step %s reported finished at #%d..#%d but no successful attempt had ended (attempts started: %d)", n.Step.Name, o.Inv, o.Ret, started)
				}
			case "failed":
				if !endedFail && started > 0 {
					chk.viol("reported-failed-early", "live", "step %s reported failed at #%d..#%d but no failed attempt had ended", n.Step.Name, o.Inv, o.Ret)
				}
			case "not started":
				if open {
					chk.viol("reported-not-started-while-running", "live", "step %s reported not started while its attempt was executing throughout #%d..#%d", n.Step.Name, o.Inv, o.Ret)
				}
			case "running":
				for _, dn := range spec.Depends {
					ended := false
					for _, dr := range firstRuns(dn) {
						if dr.EndSeq != 0 && dr.EndSeq < o.Ret {
							ended = true
						}
					}
					if !ended && len(firstRuns(dn)) > 0 {
						chk.viol("reported-running-before-deps", "live", "step %s reported running at #%d..#%d before dependency %s had ended", n.Step.Name, o.Inv, o.Ret, dn)
					}
				}
			}
			if n.RetryCount > started {
				chk.viol("retry-count-ahead", "live", "step %s: retry count %d reported with only %d attempts started", n.Step.Name, n.RetryCount, started)
			}
		}
	}
	// ---- after a natural end: persisted final = ground truth
	if !killed {
		final, _ := persistedStatusOf(res, cw, first)
		if final == nil {
			if len(cw.truth.Runs) > 0 {
				chk.viol("no-final-status", "missing", "the run executed %d commands but left no persisted status", len(cw.truth.Runs))
			}
			return out
		}
		if final.Status.String() == "running" || final.Status.String() == "not started" {
			chk.viol("final-status-not-final", final.Status.String(), "the process ended but the persisted status of the run is %q", final.Status.String())
		}
		f := fsOf(first.proc.W)
		for _, n := range final.Nodes {
			rs := firstRuns(n.Step.Name)
			lbl := n.Status.String()
			if lbl == "running" {
				chk.viol("final-step-running", "node", "the process ended but step %s is persisted as running", n.Step.Name)
			}
			if len(rs) == 0 {
				if lbl == "finished" || lbl == "failed" {
					// a step that failed in set-up never spawns; otherwise this label needs an execution
					if lbl == "finished" {
						chk.viol("final-finished-without-execution", "node", "step %s is persisted finished but never executed", n.Step.Name)
					}
				}
				continue
			}
			last := rs[len(rs)-1]
			wantLbl := "finished"
			if last.Code != 0 || last.Signaled != "" {
				wantLbl = "failed"
			}
			if lbl != wantLbl {
				chk.viol("final-step-label", wantLbl+"-as-"+lbl, "step %s: last attempt exited %d but the persisted label is %q", n.Step.Name, last.Code, lbl)
			}
			if n.RetryCount != len(rs)-1 {
				chk.viol("final-attempts", fmt.Sprintf("%d-recorded-%d-made", n.RetryCount, len(rs)-1), "step %s: %d attempts were made but the persisted retry count is %d", n.Step.Name, len(rs), n.RetryCount)
			}
			if n.Log == "" || !f.Exists(n.Log) {
				chk.viol("final-log-path", "missing", "step %s: persisted log path %q does not exist", n.Step.Name, n.Log)
			}
			st, e1 := util.ParseTime(n.StartedAt)
			fi, e2 := util.ParseTime(n.FinishedAt)
			if e1 == nil && e2 == nil && !st.IsZero() && !fi.IsZero() && st.After(fi) {
				chk.viol("final-start-after-finish", "node", "step %s: started %s after finished %s", n.Step.Name, n.StartedAt, n.FinishedAt)
			}
		}
		// the last observation (after exit) must agree with the persisted final status
		if len(obs) > 0 {
			lo := obs[len(obs)-1]
			if exitSeq != 0 && lo.Inv > exitSeq && lo.Err == nil && lo.St != nil {
				bump(out, "observed_after_exit")
				if lo.St.RequestID != final.RequestID || lo.St.Status != final.Status {
					chk.viol("after-exit-mismatch", lo.St.Status.String()+"-vs-"+final.Status.String(), "after the process ended GetLatestStatus reports %q (request %s) but the persisted final status is %q (request %s)", lo.St.Status.String(), lo.St.RequestID, final.Status.String(), final.RequestID)
				}
			}
		}
		return out
	}
	// ---- after a kill
	persisted, _ := persistedStatusOf(res, cw, first)
	// ground truth: was the run cut short? (some step the semantics require had not completed its attempts)
	cutShort, pending := false, ""
	for name, wantN := range expectedAttempts(sc.Dag) {
		ended := 0
		for _, r := range firstRuns(name) {
			if r.EndSeq != 0 && r.Signaled == "" {
				ended++
			}
		}
		if ended < wantN {
			cutShort = true
			pending = name
		}
	}
	// did the killed run succeed for real? (every step the semantics require completed, none of them failed,
	// and the handlers that belong to the outcome had run to their end: a run killed inside its exit handler
	// did not finish)
	finishedForReal := !cutShort
	for _, r := range cw.truth.Runs {
		if r.AgentPid != first.proc.Pid || strings.HasPrefix(r.Name, "on_") {
			continue
		}
		rs := firstRuns(r.Name)
		if last := rs[len(rs)-1]; last.Code != 0 || last.Signaled != "" {
			finishedForReal = false
			if pending == "" {
				pending = r.Name + " (failed)"
			}
		}
	}
	if !cutShort && sc.Dag.DagPrecond != 2 {
		want := []string{"exit"}
		if finishedForReal {
			want = append(want, "success")
		} else {
			want = append(want, "failure")
		}
		for _, hname := range want {
			if _, ok := sc.Dag.Handlers[hname]; !ok {
				continue
			}
			ended := false
			for _, r := range firstRuns("on_" + hname) {
				if r.EndSeq != 0 && r.Signaled == "" {
					ended = true
				}
			}
			if !ended {
				cutShort, finishedForReal, pending = true, false, "handler on_"+hname
				bump(out, "killed_with_handler_pending")
			}
		}
	}
	if cutShort {
		bump(out, "killed_with_steps_pending")
	}
	if priorPid != 0 {
		bump(out, "crash_with_prior_successful_run")
	}
	for _, o := range after {
		if o.Err != nil {
			chk.viol("status-error-after-crash", o.Kind, "%s status query failed after the crash: %v", o.Kind, o.Err)
			continue
		}
		s := o.St.Status.String()
		if s == "running" {
			chk.viol("running-after-crash", o.Kind, "after the run's process was killed the DAG is still reported running (%s query)", o.Kind)
		}
		if s == "finished" && !finishedForReal && int(o.St.PID) == first.proc.Pid {
			chk.viol("succeeded-after-crash", o.Kind, "a run that did not succeed (step %s) and whose process was killed is reported as succeeded (request %s; persisted status of the killed run: %v)", pending, short(o.St.RequestID), statusText(persisted))
		}
		// the run that was reported live before the kill is still the DAG's latest run afterwards
		if o.Kind == "latest" && reqID != "" && o.St.RequestID != reqID {
			chk.viol("run-record-lost-after-crash", "latest", "before the kill the DAG's live run was %s; afterwards the latest status is %q of request %q", short(reqID), s, short(o.St.RequestID))
		}
	}
	if restart != nil {
		bump(out, "restart_after_crash")
		n := 0
		for _, r := range cw.truth.Runs {
			if r.AgentPid == restart.proc.Pid {
				n++
			}
		}
		if restart.proc.ExitCode != 0 || n == 0 {
			chk.viol("cannot-start-after-crash", fmt.Sprintf("exit-%d", restart.proc.ExitCode), "a new start after the crash exited %d and executed %d commands: %s", restart.proc.ExitCode, n, lastLines(restart.proc, 3))
		}
	}
	if jobTried {
		bump(out, "daemon_guard_after_crash")
		if jobErr != nil {
			chk.viol("daemon-refuses-after-crash", errClass(jobErr), "the scheduler daemon's start guard refused the DAG a minute later: %v", jobErr)
		}
	}
	return out
}

func allCondsMet(d *DagSpec) []string {
	env := []string{"COND_DAG=yes"}
	for _, s := range d.Steps {
		env = append(env, "COND_"+s.Name+"=yes")
	}
	return env
}

func errClass(err error) string {
	s := err.Error()
	if len(s) > 40 {
		s = s[:40]
	}
	return s
}

func simosSink(p *simrt.Proc) string {
	return simos.SinkOutput(p, "stderr") + simos.SinkOutput(p, "stdout")
}

func statusText(s *model.Status) string {
	if s == nil {
		return "none"
	}
	return s.Status.String()
}

func lastLines(p *simrt.Proc, n int) string {
	s := strings.TrimSpace(simosSink(p))
	ls := strings.Split(s, "\n")
	if len(ls) > n {
		ls = ls[len(ls)-n:]
	}
	return strings.Join(ls, " | ")
}

// persistedStatusOf finds the history record written by one CLI process (by its request id seen in the file).
func persistedStatusOf(res *simrt.Result, cw *cliWorld, cp *cliProc) (*model.Status, string) {
	dump := fsOf(cw.w).Dump(dataDir)
	var files []string
	for p := range dump {
		if strings.HasSuffix(p, ".dat") {
			files = append(files, p)
		}
	}
	sort.Strings(files)
	var best *model.Status
	bestFile := ""
	for _, f := range files {
		var last *model.Status
		for _, ln := range strings.Split(dump[f], "\n") {
			if strings.TrimSpace(ln) == "" {
				continue
			}
			if st, err := model.StatusFromJSON(ln); err == nil {
				last = st
			}
		}
		if last != nil && int(last.PID) == cp.proc.Pid {
			best, bestFile = last, f
		}
	}
	return best, bestFile
}

// ---------------------------------------------------------------------------
// C16

func agentDual(t *testing.T, tp *simrt.Tape, cfg simrt.Config, sc *agentScenario, out *Outcome, opts RunOpts) *Outcome {
	// steps long enough that the first run is alive for a while
	for i := range sc.Dag.Steps {
		for j := range sc.Dag.Steps[i].DurMs {
			if sc.Dag.Steps[i].DurMs[j] < 50 {
				sc.Dag.Steps[i].DurMs[j] = pick(tp, 50, 200, 700)
			}
		}
	}
	sc.Dag.DagPrecond = 0
	for i := range sc.Dag.Steps {
		sc.Dag.Steps[i].Precond = 0 // an accepted start always executes something
	}
	sc.NStarts = 2
	if opts.Thorough && chance(tp, 1, 3) {
		sc.NStarts = 3
	}
	sameMoment := chance(tp, 1, 4)
	if !sameMoment {
		sc.SecondAt = 1 + tp.Draw(simrt.SGen, 2500)
	}
	sc.SecondSub = "start"
	if chance(tp, 1, 3) {
		// "any further start or retry": the competitor retries an earlier, completed run of the same file
		sc.SecondSub = "retry"
	}
	var cw *cliWorld
	released := false
	var releaseCh chan struct{}
	cfg.OnOp = func(op *simrt.OpInfo) {
		if cw != nil {
			cw.noteOp(op)
		}
	}
	cfg.OnStep = func(w *simrt.World) {
		if !released && releaseCh != nil && sc.SecondAt > 0 && w.Stats.Steps >= sc.SecondAt {
			released = true
			close(releaseCh)
		}
	}
	var priorProc *cliProc
	// fault: one transient accept(2) error (descriptor table full) on the active run's status socket — its
	// endpoint must keep answering afterwards and a later start must still be refused
	acceptErrAt := -1
	if chance(tp, 1, 3) {
		acceptErrAt = tp.Draw(simrt.SFault, 3)
	}
	nAccept := 0
	cfg.FaultPlan = func(op *simrt.OpInfo) simrt.Fault {
		if acceptErrAt < 0 || op.Kind != "accept" || cw == nil || len(cw.procs) == 0 {
			return simrt.Fault{}
		}
		first := cw.procs[0]
		if priorProc != nil && len(cw.procs) > 1 {
			first = cw.procs[1]
		}
		if op.Proc != first.proc {
			return simrt.Fault{}
		}
		nAccept++
		if nAccept-1 != acceptErrAt {
			return simrt.Fault{}
		}
		return simrt.Fault{Kind: simrt.FErr, Errno: syscall.EMFILE}
	}
	chk := &agentCheck{out: out, prop: "C16"}
	path := dagPath(sc.Dag)
	var survivorProbe []observation
	res := simrt.Run(t, cfg, func(w *simrt.World) {
		cw = newCLIWorld(w, tp)
		fsOf(w).PutFile(path, []byte(sc.Dag.YAML()), 0o644)
		releaseCh = make(chan struct{})
		priorReq := ""
		if sc.SecondSub == "retry" {
			quick := cloneSpec(sc.Dag)
			for i := range quick.Steps {
				quick.Steps[i].DurMs, quick.Steps[i].FailFirst = []int{5}, 0
				if len(quick.Steps[i].Depends) == 0 {
					quick.Steps[i].FailFirst = -1 // so that a retry of this run has something to execute
				}
			}
			p0 := cw.run(quick, nil, "start", path)
			if !waitProcTimeout(p0.proc, 30*time.Minute) {
				return
			}
			if st, _ := persistedStatusOf(nil, cw, p0); st != nil {
				priorReq = st.RequestID
			}
			priorProc = p0
			simrt.Sleep(time.Duration(pick(tp, 10, 1200)) * time.Millisecond)
			if priorReq == "" {
				sc.SecondSub = "start"
			}
		}
		first := cw.run(sc.Dag, nil, "start", path)
		if !sameMoment {
			waitReleaseOrDeath(releaseCh, first.proc)
		}
		var others []*cliProc
		for i := 1; i < sc.NStarts; i++ {
			if sc.SecondSub == "retry" {
				others = append(others, cw.run(sc.Dag, nil, "retry", "--req="+priorReq, path))
				w.Probe("competitor_is_retry")
			} else {
				others = append(others, cw.run(sc.Dag, nil, "start", path))
			}
		}
		// while both may be alive: the status endpoint keeps answering
		inProc(w, "prober", func() {
			cli := newObserverClient()
			wf := &dag.DAG{Location: path, Name: sc.Dag.File}
			for i := 0; i < 4; i++ {
				simrt.Sleep(time.Duration(pick(tp, 1, 30, 120)) * time.Millisecond)
				o := observation{Kind: "current", Inv: w.NextSeq(), InvAt: w.Now()}
				o.St, o.Err = cli.GetCurrentStatus(wf)
				o.Ret = w.NextSeq()
				o.RetAt = w.Now()
				survivorProbe = append(survivorProbe, o)
			}
		})
		for _, cp := range append([]*cliProc{first}, others...) {
			if !waitProcTimeout(cp.proc, 30*time.Minute) {
				chk.viol("no-termination", "dual", "start #%d did not end", cp.idx)
			}
		}
	})
	finishOutcome(out, res, opts, "C16")
	if out.Infra != "" || cw == nil {
		return out
	}
	cw.truth.Finalize(res.Events)
	exitSeq := map[int]uint64{}
	for _, e := range res.Events {
		if e.Kind == "proc_exit" {
			exitSeq[int(e.N)] = e.Seq
		}
	}
	type span struct {
		cp         *cliProc
		first, end uint64
		n          int
	}
	var spans []span
	for _, cp := range cw.procs {
		if cp == priorProc {
			continue // the earlier, completed run that the competitor retries
		}
		// execution span: from the first step/handler command to the end of the last one
		sp := span{cp: cp}
		for _, r := range cw.truth.Runs {
			if r.AgentPid == cp.proc.Pid {
				sp.n++
				if sp.first == 0 || r.StartSeq < sp.first {
					sp.first = r.StartSeq
				}
				e := r.EndSeq
				if e == 0 {
					e = exitSeq[cp.proc.Pid]
				}
				if e > sp.end {
					sp.end = e
				}
			}
		}
		spans = append(spans, sp)
	}
	executed := 0
	for _, s := range spans {
		if s.n > 0 {
			executed++
		}
	}
	aliveOverlap := false
	for i := range spans {
		for j := i + 1; j < len(spans); j++ {
			a, b := spans[i], spans[j]
			if !(exitSeq[a.cp.proc.Pid] < spawnSeqOf(res, b.cp.proc.Pid) || exitSeq[b.cp.proc.Pid] < spawnSeqOf(res, a.cp.proc.Pid)) {
				aliveOverlap = true
			}
			if a.n > 0 && b.n > 0 && a.first < b.end && b.first < a.end {
				// both executed steps while the other was active
				disc := "second-start-while-active"
				ap, bp, ab, bb := a.cp.probeSeq, b.cp.probeSeq, a.cp.bindSeq, b.cp.bindSeq
				if probeWindow(a.cp, b.cp) {
					// each probed the socket before the other had bound it
					disc = "window=probe..bind"
				} else {
					// three starts: if one of the two raced a third one through the window, the loser's exit
					// removes the socket path that by then belongs to the winner, so a later probe finds nothing —
					// a consequence of the same window, not a second defect
					for _, o := range cw.procs {
						if o != a.cp && o != b.cp && o != priorProc && (probeWindow(a.cp, o) || probeWindow(b.cp, o)) {
							disc = "window=probe..bind"
						}
					}
				}
				chk.viol("both-executed", disc, "starts #%d and #%d of the same file both executed steps concurrently (probe/bind seq: #%d/#%d and #%d/#%d); output of the later one: %s", a.cp.idx, b.cp.idx, ap, ab, bp, bb, lastLines(b.cp.proc, 6))
			}
		}
	}
	if aliveOverlap {
		out.NonTrivial = true
		bump(out, "starts_overlapped")
	}
	// a refused start: non-zero exit, nothing executed, nothing recorded
	nRecords := 0
	for p := range fsOf(cw.w).Dump(dataDir) {
		if strings.HasSuffix(p, ".dat") {
			nRecords++
		}
	}
	for _, s := range spans {
		if s.n == 0 {
			bump(out, "start_refused")
			if s.cp.proc.ExitCode == 0 {
				chk.viol("refused-start-exit0", "exit", "start #%d executed nothing but exited 0", s.cp.idx)
			}
		}
	}
	windowRace := false
	for i := range spans {
		for j := i + 1; j < len(spans); j++ {
			if probeWindow(spans[i].cp, spans[j].cp) {
				windowRace = true
			}
		}
	}
	if windowRace {
		bump(out, "probe_bind_window_hit")
	}
	if priorProc != nil {
		nRecords-- // the earlier run's own record
	}
	if nRecords != executed {
		disc := fmt.Sprintf("%d-records-%d-executed", nRecords, executed)
		if windowRace {
			disc = "window=probe..bind"
		}
		chk.viol("record-count", disc, "%d history records exist but %d starts executed steps", nRecords, executed)
	}
	// the run that executed has a complete final record
	for _, s := range spans {
		if s.n == 0 || windowRace {
			continue
		}
		final, _ := persistedStatusOf(res, cw, s.cp)
		if final == nil {
			chk.viol("survivor-record-missing", "final", "the run that executed left no history record")
		} else if st := final.Status.String(); st == "running" || st == "not started" {
			chk.viol("survivor-record-incomplete", st, "the surviving run's final record says %q", st)
		}
		if executed != 1 {
			continue
		}
		// its endpoint kept answering with its own request id while it was listening
		for _, o := range survivorProbe {
			if s.cp.bindSeq != 0 && o.Inv > s.cp.bindSeq && (s.cp.unbindSeq == 0 || o.Ret < s.cp.unbindSeq) && o.Ret < exitSeq[s.cp.proc.Pid] {
				bump(out, "survivor_probed")
				if o.RetAt-o.InvAt >= 2900*time.Millisecond {
					continue // ran into the 3 s client timeout (peer not scheduled in time)
				}
				if o.Err != nil {
					chk.viol("survivor-endpoint-error", "probe", "the active run's status endpoint failed during a competing start: %v", o.Err)
				} else if final != nil && o.St.RequestID != final.RequestID {
					chk.viol("survivor-endpoint-wrong-id", "probe", "the status endpoint answered with request %q, the active run is %q", o.St.RequestID, final.RequestID)
				}
			}
		}
	}
	return out
}

// waitReleaseOrDeath blocks until the scheduler hook closes ch or the process has exited.
func waitReleaseOrDeath(ch chan struct{}, p *simrt.Proc) {
	simrt.Yield()
	select {
	case <-ch:
		simrt.Woke()
	case <-p.DeadCh:
		simrt.Woke()
	case <-simrt.Dead():
		simrt.Die()
	}
}

// probeWindow reports whether two starts each probed the socket before the other had bound it
// (a start that never bound counts as binding at infinity).
func probeWindow(a, b *cliProc) bool {
	inf := ^uint64(0)
	ab, bb := a.bindSeq, b.bindSeq
	if ab == 0 {
		ab = inf
	}
	if bb == 0 {
		bb = inf
	}
	return a.probeSeq != 0 && b.probeSeq != 0 && a.probeSeq < bb && b.probeSeq < ab
}

func spawnSeqOf(res *simrt.Result, pid int) uint64 {
	for _, e := range res.Events {
		if e.Kind == "proc_spawn" && int(e.N) == pid {
			return e.Seq
		}
	}
	return 0
}

// ---------------------------------------------------------------------------
// C10

func agentRetry(t *testing.T, tp *simrt.Tape, cfg simrt.Config, sc *agentScenario, out *Outcome, opts RunOpts) *Outcome {
	sc.Dag.DagPrecond = 0
	sc.Dag.Handlers = nil
	for i := range sc.Dag.Steps {
		sc.Dag.Steps[i].Precond = 0 // preconditions are re-evaluated on retry; keep the recorded vector the only input
	}
	sc.FirstEnd = pick(tp, "natural", "natural", "stop", "kill")
	switch sc.FirstEnd {
	case "stop":
		sc.StopAt = 1 + tp.Draw(simrt.SGen, 2500)
		for i := range sc.Dag.Steps {
			sc.Dag.Steps[i].DurMs = []int{pick(tp, 100, 400, 1500)}
		}
	case "kill":
		sc.KillAt = 40 + tp.Draw(simrt.SFault, 380)
		for i := range sc.Dag.Steps {
			sc.Dag.Steps[i].DurMs = []int{pick(tp, 20, 150, 600)}
		}
	}
	// fresh outcome scripts for the retry
	sc.Second = cloneSpec(sc.Dag)
	allOK := chance(tp, 2, 3)
	for i := range sc.Second.Steps {
		s := &sc.Second.Steps[i]
		s.DurMs = []int{pick(tp, 0, 20, 120)}
		if allOK || chance(tp, 2, 3) {
			s.FailFirst = 0
		} else {
			s.FailFirst = -1
		}
	}
	sc.EditDag = chance(tp, 1, 4)
	var cw *cliWorld
	var first, retry *cliProc
	killed := false
	released := false
	var releaseCh chan struct{}
	chk := &agentCheck{out: out, prop: "C10"}
	cfg.OnOp = func(op *simrt.OpInfo) {
		if cw != nil {
			cw.noteOp(op)
		}
	}
	cfg.OnStep = func(w *simrt.World) {
		if !released && releaseCh != nil && sc.StopAt > 0 && w.Stats.Steps >= sc.StopAt {
			released = true
			close(releaseCh)
		}
	}
	decoy := chance(tp, 1, 4)
	decoyPath := ""
	decoyErr := pick2(tp, syscall.ENOENT, syscall.EIO)
	cfg.FaultPlan = func(op *simrt.OpInfo) simrt.Fault {
		if decoyPath != "" && op.Kind == "open" && op.Path == decoyPath && retry != nil && op.Proc == retry.proc {
			op.Proc.W.CountFault("history_file_vanishes")
			return simrt.Fault{Kind: simrt.FErr, Errno: decoyErr}
		}
		if sc.FirstEnd != "kill" || killed || first == nil || op.Proc != first.proc || op.Index != sc.KillAt {
			return simrt.Fault{}
		}
		killed = true
		return simrt.Fault{Kind: simrt.FKillBefore}
	}
	path := dagPath(sc.Dag)
	var recorded *model.Status
	var recordedFile, recordedBytes string
	retryEnded := true
	res := simrt.Run(t, cfg, func(w *simrt.World) {
		cw = newCLIWorld(w, tp)
		fsOf(w).PutFile(path, []byte(sc.Dag.YAML()), 0o644)
		releaseCh = make(chan struct{})
		first = cw.run(sc.Dag, nil, "start", path)
		var stopper *simrt.Proc
		if sc.FirstEnd == "stop" {
			stopper = w.Spawn(simrt.CurProc(), "stopper", []string{"stopper"}, baseEnv(nil), workDir, true, func(p *simrt.Proc) int {
				waitReleaseOrDeath(releaseCh, first.proc)
				for try := 0; try < 100 && first.proc.Alive(); try++ {
					sp := cw.run(nil, nil, "stop", path)
					simexec.WaitProc(sp.proc)
					if sp.proc.ExitCode == 0 {
						break
					}
					simrt.Sleep(40 * time.Millisecond)
				}
				return 0
			})
		}
		if !waitProcTimeout(first.proc, 30*time.Minute) {
			out.Inconclusive = "first-run-did-not-end"
			return
		}
		if stopper != nil {
			simexec.WaitProc(stopper) // a stop still in flight must not hit the retry
		}
		reapOrphans(w)
		simrt.Sleep(time.Duration(pick(tp, 5, 1200)) * time.Millisecond)
		recorded, recordedFile = persistedStatusOf(nil, cw, first)
		if recorded == nil {
			return // killed before anything was recorded: nothing to retry
		}
		// what "the recorded run" is, is what the store's own lookup returns (C07 judges that lookup): the
		// last line of a killed run's record may be unterminated, and whether such a line counts is the
		// store's business, not this oracle's
		if sf, err := jsondb.New(dataDir, true).FindByRequestID(path, recorded.RequestID); err == nil && sf != nil && sf.Status != nil {
			if lineVectorOf(sf.Status) != lineVectorOf(recorded) {
				w.Probe("store_lookup_differs_from_last_parsable_line")
			}
			recorded = sf.Status
		}
		if b, ok := fsOf(w).GetFile(recordedFile); ok {
			recordedBytes = string(b)
		}
		if sc.EditDag {
			// the definition changes after the run: the retry must use the recorded steps
			ed := cloneSpec(sc.Dag)
			ed.Steps = append(ed.Steps, StepSpec{Name: "added_later", RetryLimit: -1, DurMs: []int{0}})
			fsOf(w).PutFile(path, []byte(ed.YAML()), 0o644)
		}
		if decoy {
			// fault "history_file_vanishes": the DAG has the record of another run that sorts before the
			// recorded one in the retry's lookup; it is listed, but gone (ENOENT) or unreadable (EIO) when the
			// retry opens it — as when another agent compacts or cleans up at that moment. The recorded run is
			// intact: the retry must find it all the same
			other := *recorded
			other.RequestID = "zzzzzzzz-0000-4000-8000-000000000000"
			if b, err := json.Marshal(&other); err == nil {
				decoyPath = strings.Replace(recordedFile, recorded.RequestID[:8], "zzzzzzzz", 1)
				fsOf(w).PutFile(decoyPath, append(b, '\n'), 0o644)
			}
		}
		retry = cw.run(sc.Second, nil, "retry", "--req="+recorded.RequestID, path)
		retryEnded = waitProcTimeout(retry.proc, 20*time.Minute)
	})
	finishOutcome(out, res, opts, "C10")
	if out.Infra != "" || cw == nil || recorded == nil || retry == nil {
		return out
	}
	cw.truth.Finalize(res.Events)
	out.NonTrivial = true
	bump(out, "first_end_"+sc.FirstEnd)
	if sc.FirstEnd == "kill" && killed {
		bump(out, "first_run_killed")
	}
	recLabel := map[string]string{}
	for _, n := range recorded.Nodes {
		recLabel[n.Step.Name] = n.Status.String()
	}
	hasLabel := func(l string) bool {
		for _, v := range recLabel {
			if v == l {
				return true
			}
		}
		return false
	}
	vecDisc := "recorded-terminal-states"
	if hasLabel("running") {
		vecDisc = "recorded-running-node"
		bump(out, "recorded_running_node")
	} else if hasLabel("not started") {
		vecDisc = "recorded-not-started-node"
		bump(out, "recorded_not_started_node")
	}
	if !retryEnded {
		chk.viol("retry-does-not-terminate", vecDisc, "retry of run %s (recorded: %v) had not ended after 20 simulated minutes", recorded.RequestID[:8], recLabel)
		return out
	}
	// R = not successfully completed + everything downstream
	inR := map[string]bool{}
	for _, s := range sc.Dag.Steps {
		if l := recLabel[s.Name]; l != "finished" && l != "skipped" {
			inR[s.Name] = true
		}
	}
	for changed := true; changed; {
		changed = false
		for _, s := range sc.Dag.Steps {
			if inR[s.Name] {
				continue
			}
			for _, d := range s.Depends {
				if inR[d] {
					inR[s.Name] = true
					changed = true
				}
			}
		}
	}
	retryRuns := func(name string) []*StepRun { return cw.truth.RunsOf(retry.proc.Pid, name) }
	final, finalFile := persistedStatusOf(nil, cw, retry)
	if len(inR) == 0 {
		bump(out, "nothing_to_retry")
	}
	if final == nil {
		chk.viol("retry-not-recorded", vecDisc, "the retry (exit %d) left no history record of its own: %s", retry.proc.ExitCode, lastLines(retry.proc, 2))
		return out
	}
	if final.RequestID == recorded.RequestID || finalFile == recordedFile {
		chk.viol("retry-not-a-new-run", "same-record", "the retry was recorded under the original request id / file")
	}
	if now, ok := fsOf(cw.w).GetFile(recordedFile); ok && string(now) != recordedBytes {
		chk.viol("original-record-changed", "bytes", "the original run's history file changed during the retry")
	}
	finalLabel := map[string]*model.Node{}
	for _, n := range final.Nodes {
		finalLabel[n.Step.Name] = n
	}
	for _, n := range recorded.Nodes {
		name := n.Step.Name
		rs := retryRuns(name)
		spec2 := sc.Second.Step(name)
		fn := finalLabel[name]
		if !inR[name] {
			if len(rs) != 0 {
				chk.viol("kept-step-executed", recLabel[name], "step %s was recorded %s and is not downstream of an unfinished step, but the retry executed it %d times; recorded vector %v; lines: %s; retry log: %s", name, recLabel[name], len(rs), recLabel, lineVectors(recordedBytes)+fmt.Sprintf(" [file: %d bytes, %d newlines, ends with newline: %v, line lengths %v]", len(recordedBytes), strings.Count(recordedBytes, "\n"), strings.HasSuffix(recordedBytes, "\n"), lineLens(recordedBytes)), lastLines(retry.proc, 3))
			}
			if fn == nil {
				chk.viol("kept-step-missing", recLabel[name], "step %s missing from the retry's record", name)
			} else if fn.Status.String() != recLabel[name] || fn.Log != n.Log || fn.StartedAt != n.StartedAt || fn.FinishedAt != n.FinishedAt {
				chk.viol("kept-step-changed", recLabel[name], "kept step %s changed in the retry's record: %s/%s/%s/%s -> %s/%s/%s/%s", name, recLabel[name], n.Log, n.StartedAt, n.FinishedAt, fn.Status.String(), fn.Log, fn.StartedAt, fn.FinishedAt)
			}
			continue
		}
		bump(out, "step_in_retry_set")
		// in R: re-executed under the fresh scripts, as far as its dependencies allow
		depsOK := true
		for _, d := range sc.Dag.Step(name).Depends {
			dn := finalLabel[d]
			if dn == nil || !permits(sc.Second.Step(d), dn.Status.String()) {
				depsOK = false
			}
		}
		if depsOK {
			wantN, wantL := ownOutcome(spec2)
			if len(rs) == 0 {
				chk.viol("unfinished-step-not-rerun", recLabel[name], "step %s was recorded %s (or is downstream of an unfinished step) but the retry did not execute it; its state in the retry's record: %s; recorded vector %v; lines: %s", name, recLabel[name], labelOf(fn), recLabel, lineVectors(recordedBytes))
				continue
			}
			if len(rs) != wantN {
				chk.viol("retry-attempt-count", recLabel[name], "step %s executed %d times in the retry, expected %d", name, len(rs), wantN)
			}
			if fn != nil && fn.Status.String() != wantL {
				chk.viol("retry-step-label", wantL+"-as-"+fn.Status.String(), "step %s should be %s after the retry but is recorded %s", name, wantL, fn.Status.String())
			}
			// dependency order
			for _, d := range sc.Dag.Step(name).Depends {
				for _, dr := range retryRuns(d) {
					if dr.EndSeq == 0 || dr.EndSeq > rs[0].StartSeq {
						chk.viol("retry-dependency-order", "overlap", "in the retry step %s started before its dependency %s had ended", name, d)
					}
				}
			}
		} else if len(rs) != 0 {
			chk.viol("retry-blocked-step-executed", recLabel[name], "step %s executed in the retry although a dependency does not let it proceed", name)
		}
	}
	// only recorded steps run
	for _, r := range cw.truth.Runs {
		if r.AgentPid == retry.proc.Pid && sc.Dag.Step(r.Name) == nil {
			chk.viol("retry-ran-unrecorded-step", r.Name, "the retry executed %q which is not a step of the recorded run", r.Name)
		}
	}
	return out
}

// expectedAttempts evaluates the reference semantics of a DAG without stop: step -> number of executions.
func expectedAttempts(d *DagSpec) map[string]int {
	label := map[string]string{}
	att := map[string]int{}
	for len(label) < len(d.Steps) {
		progress := false
		for i := range d.Steps {
			s := &d.Steps[i]
			if _, done := label[s.Name]; done {
				continue
			}
			ready, blockedC, blockedS := true, false, false
			for _, dn := range s.Depends {
				dl, ok := label[dn]
				if !ok {
					ready = false
					break
				}
				if !permits(d.Step(dn), dl) {
					if dl == "skipped" {
						blockedS = true
					} else {
						blockedC = true
					}
				}
			}
			if !ready {
				continue
			}
			progress = true
			switch {
			case blockedS && !blockedC:
				label[s.Name] = "skipped"
			case blockedC:
				label[s.Name] = "canceled"
			case s.Precond == 2:
				label[s.Name] = "skipped"
			default:
				att[s.Name], label[s.Name] = ownOutcome(s)
			}
		}
		if !progress {
			break
		}
	}
	if d.DagPrecond == 2 {
		return map[string]int{}
	}
	return att
}

func lineVectorOf(st *model.Status) string {
	v := st.Status.String() + ":"
	for _, n := range st.Nodes {
		v += n.Step.Name + "=" + n.Status.String() + ","
	}
	return v
}

func lineLens(file string) []int {
	var out []int
	for _, ln := range strings.Split(file, "\n") {
		out = append(out, len(ln))
	}
	return out
}

func lineVectors(file string) string {
	var out []string
	for _, ln := range strings.Split(file, "\n") {
		st, err := model.StatusFromJSON(ln)
		if err != nil {
			continue
		}
		v := st.Status.String() + ":"
		for _, n := range st.Nodes {
			v += n.Step.Name + "=" + n.Status.String() + ","
		}
		out = append(out, v)
	}
	return strings.Join(out, " | ")
}

func labelOf(n *model.Node) string {
	if n == nil {
		return "missing"
	}
	return n.Status.String()
}
