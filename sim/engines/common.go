// Package engines holds the simulation harnesses ("engines") and oracles for
// the properties. It is compiled into the instrumented scratch copy of the
// repository as internal/verifsim/engines, so it can import internal packages.
package engines

import (
	"encoding/json"
	"fmt"
	"sort"
	"strings"
	"testing"
	"time"

	"github.com/ErdemOzgen/blackdagger/internal/verifsim/simexec"
	"github.com/ErdemOzgen/blackdagger/internal/verifsim/simos"
	"github.com/ErdemOzgen/blackdagger/internal/verifsim/simrt"
)

// Violation is one oracle failure. Signature = Prop/Clause/Disc identifies the
// *kind* of failure (used for de-duplication, shrinking and known findings).
type Violation struct {
	Prop   string `json:"prop"`
	Clause string `json:"clause"`
	Disc   string `json:"disc"`
	Msg    string `json:"msg"`
}

func (v Violation) Sig() string { return v.Prop + "/" + v.Clause + "/" + v.Disc }

// Outcome is what one simulated run reports to the worker loop.
type Outcome struct {
	Violations   []Violation    `json:"violations,omitempty"`
	Inconclusive string         `json:"inconclusive,omitempty"` // cap hit etc. (never a violation by itself)
	Infra        string         `json:"infra,omitempty"`        // simulator trouble (panic in harness, ...)
	NonTrivial   bool           `json:"nontrivial"`
	TraceHash    uint64         `json:"trace_hash"`
	SchedSig     uint64         `json:"sched_sig"`
	StateSig     uint64         `json:"state_sig"`
	Steps        int            `json:"steps"`
	FakeTime     time.Duration  `json:"fake_ns"`
	Faults       map[string]int `json:"faults,omitempty"`
	Probes       map[string]int `json:"probes,omitempty"`
	Sample       any            `json:"sample,omitempty"`
	Trace        []string       `json:"trace,omitempty"`
	Events       []string       `json:"events,omitempty"`
	Procs        int            `json:"procs"`
	Evals        int            `json:"evals,omitempty"` // simulated runs performed by this engine call (default 1)
	Ops          int            `json:"ops"`
}

// RunOpts selects what a single run does beyond the tape.
type RunOpts struct {
	Prop    string // property whose oracle is authoritative ("" = all of the engine)
	Trace   bool   // keep a schedule trace (replay / samples)
	Thorough bool
	Variant string // engine-specific sub-mode
}

// Engine runs one scenario drawn from the tape.
type Engine func(t *testing.T, tape *simrt.Tape, opts RunOpts) *Outcome

var registry = map[string]Engine{}

// PropEngines maps a property id to the engine (and variant list) that decides it.
var PropEngines = map[string]struct {
	Engine   string
	Variants []string
}{}

func register(name string, e Engine) { registry[name] = e }

// pick draws one of the options from the generation stream.
func pick[T any](tp *simrt.Tape, opts ...T) T { return opts[tp.Draw(simrt.SGen, len(opts))] }

func chance(tp *simrt.Tape, num, den int) bool { return tp.Chance(simrt.SGen, num, den) }

// ---------------------------------------------------------------------------
// scenario description of a DAG (rendered to YAML and loaded by the real loader)

type StepSpec struct {
	Name          string   `json:"name"`
	Depends       []string `json:"depends,omitempty"`
	ContFail      bool     `json:"contFail,omitempty"`
	ContSkip      bool     `json:"contSkip,omitempty"`
	RetryLimit    int      `json:"retryLimit"` // -1 = no retryPolicy
	RetryInterval int      `json:"retryIntervalSec,omitempty"`
	Precond       int      `json:"precond,omitempty"` // 0 none, 1 met, 2 unmet
	PrecondExtra  int      `json:"precondExtra,omitempty"` // a second condition, always met: 1 = listed after the step's own, 2 = listed before it
	FailFirst     int      `json:"failFirst"`         // number of leading failing attempts; -1 = always fails
	DurMs         []int    `json:"durMs"`             // per attempt (last repeats)
	SignalOnStop  string   `json:"signalOnStop,omitempty"`
	OnTerm        string   `json:"onTerm,omitempty"` // "", "exit", "ignore", "delay"
	ExitDelayMs   int      `json:"exitDelayMs,omitempty"`
	Repeat        bool     `json:"repeat,omitempty"`
	RepeatSec     int      `json:"repeatSec,omitempty"`
	Output        string   `json:"output,omitempty"`
	Stdout        string   `json:"stdout,omitempty"`
	Stderr        string   `json:"stderr,omitempty"`
	OutBytes      int      `json:"outBytes,omitempty"`
	ErrBytes      int      `json:"errBytes,omitempty"`
	Chunk         int      `json:"chunk,omitempty"`
	Interleave    bool     `json:"interleave,omitempty"`
	OutText       string   `json:"outText,omitempty"` // exact stdout text (C11)
	Args          []string `json:"args,omitempty"`    // extra argv after the step id (raw YAML command text)
	Script        string   `json:"script,omitempty"`
	BgLate        bool     `json:"bgLate,omitempty"` // that background process prints a line to the step's stdout just before it ends
	BgMs          int      `json:"bgMs,omitempty"`   // the command leaves a background process in its process group that holds its output open for this long (a daemonising script)
	Direct        bool     `json:"direct,omitempty"` // in-process executor that calls Write on the given writers (like http/jq/mail)
	Dir           string   `json:"dir,omitempty"`    // working directory of the command (one that does not exist: every attempt fails while the executor is set up)
}

type HandlerSpec struct {
	Fail  bool `json:"fail,omitempty"`
	DurMs int  `json:"durMs,omitempty"`
}

type DagSpec struct {
	File          string                  `json:"file"` // base name without extension
	Steps         []StepSpec              `json:"steps"`
	MaxActiveRuns int                     `json:"maxActiveRuns,omitempty"`
	BaseLimit     bool                    `json:"baseLimit,omitempty"` // maxActiveRuns comes from the installation's base configuration, not from the DAG file
	DelaySec      int                     `json:"delaySec,omitempty"`
	TimeoutSec    int                     `json:"timeoutSec,omitempty"`
	MaxCleanUpSec int                     `json:"maxCleanUpSec,omitempty"` // 0 = default
	Handlers      map[string]*HandlerSpec `json:"handlers,omitempty"`      // success failure cancel exit
	DagPrecond    int                     `json:"dagPrecond,omitempty"`    // 0 none 1 met 2 unmet
	Params        string                  `json:"params,omitempty"`
	Schedule      string                  `json:"schedule,omitempty"` // raw YAML value
	HistRetention *int                    `json:"histRetentionDays,omitempty"`
	Env           []string                `json:"env,omitempty"`
}

func yq(s string) string {
	b, _ := json.Marshal(s) // JSON strings are valid YAML double-quoted scalars
	return string(b)
}

func (s *StepSpec) yaml(ind string, cmd string) string {
	var b strings.Builder
	fmt.Fprintf(&b, "%s- name: %s\n", ind, yq(s.Name))
	in := ind + "  "
	fmt.Fprintf(&b, "%scommand: %s\n", in, yq(cmd))
	if len(s.Depends) > 0 {
		fmt.Fprintf(&b, "%sdepends:\n", in)
		for _, d := range s.Depends {
			fmt.Fprintf(&b, "%s  - %s\n", in, yq(d))
		}
	}
	if s.ContFail || s.ContSkip {
		fmt.Fprintf(&b, "%scontinueOn:\n%s  failure: %v\n%s  skipped: %v\n", in, in, s.ContFail, in, s.ContSkip)
	}
	if s.RetryLimit >= 0 {
		fmt.Fprintf(&b, "%sretryPolicy:\n%s  limit: %d\n%s  intervalSec: %d\n", in, in, s.RetryLimit, in, s.RetryInterval)
	}
	if s.Repeat {
		fmt.Fprintf(&b, "%srepeatPolicy:\n%s  repeat: true\n%s  intervalSec: %d\n", in, in, in, s.RepeatSec)
	}
	if s.Precond != 0 {
		own := fmt.Sprintf("%s  - condition: %s\n%s    expected: \"yes\"\n", in, yq("$COND_"+s.Name), in)
		extra := fmt.Sprintf("%s  - condition: \"$COND_ALWAYS\"\n%s    expected: \"yes\"\n", in, in)
		switch s.PrecondExtra {
		case 1:
			own += extra
		case 2:
			own = extra + own
		}
		fmt.Fprintf(&b, "%spreconditions:\n%s", in, own)
	}
	if s.SignalOnStop != "" {
		fmt.Fprintf(&b, "%ssignalOnStop: %s\n", in, yq(s.SignalOnStop))
	}
	if s.Output != "" {
		fmt.Fprintf(&b, "%soutput: %s\n", in, s.Output)
	}
	if s.Stdout != "" {
		fmt.Fprintf(&b, "%sstdout: %s\n", in, yq(s.Stdout))
	}
	if s.Stderr != "" {
		fmt.Fprintf(&b, "%sstderr: %s\n", in, yq(s.Stderr))
	}
	if s.Script != "" {
		fmt.Fprintf(&b, "%sscript: %s\n", in, yq(s.Script))
	}
	if s.Direct {
		fmt.Fprintf(&b, "%sexecutor: simdirect\n", in)
	}
	if s.Dir != "" {
		fmt.Fprintf(&b, "%sdir: %s\n", in, yq(s.Dir))
	}
	return b.String()
}

func stepCmd(s *StepSpec) string {
	c := "simstep " + s.Name
	for _, a := range s.Args {
		c += " " + a
	}
	return c
}

// YAML renders the DAG definition text.
func (d *DagSpec) YAML() string {
	var b strings.Builder
	if d.Schedule != "" {
		fmt.Fprintf(&b, "schedule: %s\n", d.Schedule)
	}
	if d.Params != "" {
		fmt.Fprintf(&b, "params: %s\n", yq(d.Params))
	}
	if len(d.Env) > 0 {
		fmt.Fprintf(&b, "env:\n")
		for _, e := range d.Env {
			k, v, _ := strings.Cut(e, "=")
			fmt.Fprintf(&b, "  - %s: %s\n", k, yq(v))
		}
	}
	if d.MaxActiveRuns != 0 && !d.BaseLimit {
		fmt.Fprintf(&b, "maxActiveRuns: %d\n", d.MaxActiveRuns)
	}
	if d.DelaySec != 0 {
		fmt.Fprintf(&b, "delaySec: %d\n", d.DelaySec)
	}
	if d.TimeoutSec != 0 {
		fmt.Fprintf(&b, "timeoutSec: %d\n", d.TimeoutSec)
	}
	if d.MaxCleanUpSec != 0 {
		fmt.Fprintf(&b, "maxCleanUpTimeSec: %d\n", d.MaxCleanUpSec)
	}
	if d.HistRetention != nil {
		fmt.Fprintf(&b, "histRetentionDays: %d\n", *d.HistRetention)
	}
	if d.DagPrecond != 0 {
		fmt.Fprintf(&b, "preconditions:\n  - condition: \"$COND_DAG\"\n    expected: \"yes\"\n")
	}
	if len(d.Handlers) > 0 {
		fmt.Fprintf(&b, "handlerOn:\n")
		for _, k := range []string{"success", "failure", "cancel", "exit"} {
			if _, ok := d.Handlers[k]; ok {
				fmt.Fprintf(&b, "  %s:\n    command: %s\n", k, yq("simstep on_"+k))
			}
		}
	}
	fmt.Fprintf(&b, "steps:\n")
	for i := range d.Steps {
		b.WriteString(d.Steps[i].yaml("  ", stepCmd(&d.Steps[i])))
	}
	return b.String()
}

// CondEnv returns the environment entries that script the preconditions.
func (d *DagSpec) CondEnv() []string {
	var env []string
	val := func(c int) string {
		if c == 1 {
			return "yes"
		}
		return "no"
	}
	env = append(env, "COND_ALWAYS=yes")
	if d.DagPrecond != 0 {
		env = append(env, "COND_DAG="+val(d.DagPrecond))
	}
	for _, s := range d.Steps {
		if s.Precond != 0 {
			env = append(env, "COND_"+s.Name+"="+val(s.Precond))
		}
	}
	return env
}

func (d *DagSpec) Step(name string) *StepSpec {
	for i := range d.Steps {
		if d.Steps[i].Name == name {
			return &d.Steps[i]
		}
	}
	return nil
}

// ---------------------------------------------------------------------------
// scripted step program

// StepRun is the ground truth of one execution of a step command.
type StepRun struct {
	Name     string
	Attempt  int // 0-based, counted per (agent pid, step)
	Pid      int
	AgentPid int
	StartSeq uint64
	StartAt  time.Duration
	EndSeq   uint64 // 0 while running
	EndAt    time.Duration
	Code     int
	Signaled string
	Signals  []SigRec
	Argv     []string
	Env      map[string]string
	OutWrote int
	ErrWrote int
	Partial  bool // a script step whose script file was not complete: the shell ran nothing of the step's command
}

type SigRec struct {
	Sig string
	Seq uint64
	At  time.Duration
}

// Truth collects ground-truth step executions of one world.
type Truth struct {
	Bg      []*StepRun // background processes left behind by step commands (BgMs)
	Runs    []*StepRun
	byPid   map[int]*StepRun
	counter map[string]int
	// Behaviour looks up the script of a step by (dag file of the agent, name).
	Behaviour func(pc *simexec.ProcCtx, name string) *StepSpec
	Handler   func(pc *simexec.ProcCtx, name string) *HandlerSpec
}

func NewTruth() *Truth {
	return &Truth{byPid: map[int]*StepRun{}, counter: map[string]int{}}
}

func pattern(name string, attempt int, stream byte, n int) []byte {
	// deterministic, position-dependent content so that loss, duplication and reordering are all visible
	out := make([]byte, n)
	seed := uint32(len(name)*131 + attempt*31 + int(stream))
	for _, c := range []byte(name) {
		seed = seed*16777619 ^ uint32(c)
	}
	for i := range out {
		if i%64 == 63 {
			out[i] = '\n'
			continue
		}
		seed = seed*1664525 + 1013904223
		out[i] = "abcdefghijklmnopqrstuvwxyz0123456789ABCDEF"[(seed>>24)%42]
	}
	return out
}

// StepProgram is the body of the `simstep` executable.
func (tr *Truth) StepProgram(pc *simexec.ProcCtx) int {
	w := pc.W
	p := pc.Proc
	name := "?"
	if len(pc.Args) > 1 {
		name = pc.Args[1]
	}
	key := fmt.Sprintf("%d/%s", p.PPid, name)
	// a step with a script: runs like `sh <script file>`; if the file does not hold the whole script the
	// shell executes what is there (here: nothing of the step's command) and exits 0
	partial := false
	if tr.Behaviour != nil && !strings.HasPrefix(name, "on_") {
		if sp := tr.Behaviour(pc, name); sp != nil && sp.Script != "" && len(pc.Args) > 2 {
			if b, err := simos.ReadFile(pc.Args[len(pc.Args)-1]); err != nil || string(b) != sp.Script {
				partial = true
			}
		}
	}
	simrt.Big.Lock()
	attempt := tr.counter[key]
	if !partial {
		tr.counter[key]++
	}
	run := &StepRun{Name: name, Attempt: attempt, Pid: p.Pid, AgentPid: p.PPid, Argv: append([]string{}, pc.Args...), Env: map[string]string{}}
	for k, v := range p.Env {
		run.Env[k] = v
	}
	tr.Runs = append(tr.Runs, run)
	tr.byPid[p.Pid] = run
	simrt.Big.Unlock()
	run.StartAt = w.Now()
	run.StartSeq = w.Emit("step_start", name, fmt.Sprintf("attempt=%d", attempt), int64(p.Pid), nil)
	if partial {
		run.Partial = true
		w.Probe("script_file_incomplete")
		return 0
	}

	var dur time.Duration
	code := 0
	onTerm := "exit"
	exitDelay := time.Duration(0)
	var spec *StepSpec
	if strings.HasPrefix(name, "on_") && tr.Handler != nil {
		if h := tr.Handler(pc, strings.TrimPrefix(name, "on_")); h != nil {
			dur = time.Duration(h.DurMs) * time.Millisecond
			if h.Fail {
				code = 1
			}
		}
	} else if tr.Behaviour != nil {
		spec = tr.Behaviour(pc, name)
	}
	if spec != nil {
		if len(spec.DurMs) > 0 {
			i := attempt
			if i >= len(spec.DurMs) {
				i = len(spec.DurMs) - 1
			}
			dur = time.Duration(spec.DurMs[i]) * time.Millisecond
		}
		if spec.FailFirst < 0 || attempt < spec.FailFirst {
			code = 1
		}
		if spec.OnTerm != "" {
			onTerm = spec.OnTerm
		}
		exitDelay = time.Duration(spec.ExitDelayMs) * time.Millisecond
	}
	// signal behaviour ("trap")
	termCh := make(chan struct{}, 8)
	p.OnSignal = func(sig int) bool {
		name := fmt.Sprintf("SIG%d", sig)
		switch sig {
		case 15:
			name = "SIGTERM"
		case 2:
			name = "SIGINT"
		case 1:
			name = "SIGHUP"
		case 3:
			name = "SIGQUIT"
		case 10:
			name = "SIGUSR1"
		case 12:
			name = "SIGUSR2"
		}
		run.Signals = append(run.Signals, SigRec{Sig: name, Seq: w.Seq(), At: w.Now()})
		switch onTerm {
		case "ignore":
			return true
		case "delay":
			select {
			case termCh <- struct{}{}:
			default:
			}
			return true
		}
		return false // default action: terminate
	}
	finish := func(code int) int {
		run.Code = code
		return code
	}
	// output first (so that a step that is stopped mid-sleep has printed), in chunks
	if spec != nil && (spec.OutBytes > 0 || spec.ErrBytes > 0 || spec.OutText != "") {
		if err := tr.emitOutput(pc, spec, run); err != nil {
			return finish(141) // EPIPE: as if killed by SIGPIPE
		}
	}
	if spec != nil && spec.BgMs > 0 {
		// like `sh -c 'worker & echo started'`: the background process stays in the step's process group and
		// keeps the step's output open after the command itself has exited
		simexec.Register(w, "/sim/bin/simbg", tr.BgProgram)
		bgArgs := []string{name, fmt.Sprint(spec.BgMs)}
		if spec.BgLate {
			bgArgs = append(bgArgs, "late")
		}
		bg := simexec.Command("/sim/bin/simbg", bgArgs...)
		bg.Stdout, bg.Stderr = pc.Stdout, pc.Stderr
		if err := bg.Start(); err == nil {
			w.Probe("step_left_background_process")
		}
	}
	if dur > 0 {
		t := time.NewTimer(dur)
		simrt.Yield()
		select {
		case <-t.C:
			simrt.Woke()
		case <-termCh:
			simrt.Woke()
			t.Stop()
			simrt.Sleep(exitDelay)
			return finish(143)
		case <-simrt.Dead():
			simrt.Die()
		}
	}
	return finish(code)
}

// BgProgram is the body of a background process left behind by a step command: it sleeps, and dies on
// any signal whose default action is to terminate.
func (tr *Truth) BgProgram(pc *simexec.ProcCtx) int {
	w, p := pc.W, pc.Proc
	name, ms := "?", 1000
	if len(pc.Args) > 2 {
		name = pc.Args[1]
		fmt.Sscan(pc.Args[2], &ms)
	}
	run := &StepRun{Name: name, Pid: p.Pid, AgentPid: p.PPid}
	simrt.Big.Lock()
	tr.Bg = append(tr.Bg, run)
	tr.byPid[p.Pid] = run
	simrt.Big.Unlock()
	run.StartAt = w.Now()
	run.StartSeq = w.Emit("bg_start", name, "", int64(p.Pid), nil)
	p.OnSignal = func(sig int) bool {
		run.Signals = append(run.Signals, SigRec{Sig: fmt.Sprintf("SIG%d", sig), Seq: w.Seq(), At: w.Now()})
		return false
	}
	t := time.NewTimer(time.Duration(ms) * time.Millisecond)
	simrt.Yield()
	select {
	case <-t.C:
		simrt.Woke()
	case <-simrt.Dead():
		simrt.Die()
	}
	if len(pc.Args) > 3 && pc.Args[3] == "late" {
		n, _ := pc.Stdout.Write([]byte(BgLateText(name)))
		run.OutWrote = n
	}
	return 0
}

// BgLateText is what a step's background process prints before it ends (BgLate).
func BgLateText(step string) string { return "late-output-of-background-child:" + step + "\n" }

func (tr *Truth) emitOutput(pc *simexec.ProcCtx, spec *StepSpec, run *StepRun) error {
	if spec.OutText != "" {
		n, err := pc.Stdout.Write([]byte(spec.OutText))
		run.OutWrote += n
		return err
	}
	out := pattern(spec.Name, run.Attempt, 'o', spec.OutBytes)
	errb := pattern(spec.Name, run.Attempt, 'e', spec.ErrBytes)
	chunk := spec.Chunk
	if chunk <= 0 {
		chunk = 1 << 20
	}
	for len(out) > 0 || len(errb) > 0 {
		if len(out) > 0 {
			n := chunk
			if n > len(out) {
				n = len(out)
			}
			m, err := pc.Stdout.Write(out[:n])
			run.OutWrote += m
			if err != nil {
				return err
			}
			out = out[n:]
			if !spec.Interleave && len(out) > 0 {
				continue
			}
		}
		if len(errb) > 0 {
			n := chunk
			if n > len(errb) {
				n = len(errb)
			}
			m, err := pc.Stderr.Write(errb[:n])
			run.ErrWrote += m
			if err != nil {
				return err
			}
			errb = errb[n:]
		}
	}
	return nil
}

// Finalize fills end information of step runs from proc_exit events.
func (tr *Truth) Finalize(events []simrt.Event) {
	for _, e := range events {
		if e.Kind != "proc_exit" {
			continue
		}
		if r, ok := tr.byPid[int(e.N)]; ok && r.EndSeq == 0 {
			r.EndSeq = e.Seq
			r.EndAt = e.At
			r.Signaled = e.B
			if c, ok := e.X.(int); ok {
				r.Code = c
			}
		}
	}
}

// RunsOf returns the executions of one step by one agent, in start order.
func (tr *Truth) RunsOf(agentPid int, name string) []*StepRun {
	var out []*StepRun
	for _, r := range tr.Runs {
		if r.Name == name && (agentPid == 0 || r.AgentPid == agentPid) {
			out = append(out, r)
		}
	}
	sort.Slice(out, func(i, j int) bool { return out[i].StartSeq < out[j].StartSeq })
	return out
}

// ---------------------------------------------------------------------------

func fmtEvents(evs []simrt.Event, max int) []string {
	var out []string
	for i, e := range evs {
		if i >= max {
			out = append(out, fmt.Sprintf("... %d more", len(evs)-max))
			break
		}
		out = append(out, e.String())
	}
	return out
}

func fillOutcome(o *Outcome, res *simrt.Result, opts RunOpts) {
	o.TraceHash = res.TraceHash
	o.SchedSig = res.SchedSig
	o.Steps = res.Steps
	o.FakeTime = res.FakeTime
	// merge: probes and faults that an engine counted on the outcome while the world was running stay
	for k, v := range res.Stats.Faults {
		if o.Faults == nil {
			o.Faults = map[string]int{}
		}
		o.Faults[k] += v
	}
	for k, v := range res.Stats.Probes {
		if o.Probes == nil {
			o.Probes = map[string]int{}
		}
		o.Probes[k] += v
	}
	o.Procs = res.Stats.Procs
	for _, n := range res.Stats.Ops {
		o.Ops += n
	}
	if res.Stats.Stalls > 0 {
		if o.Faults == nil {
			o.Faults = map[string]int{}
		}
		o.Faults["stall"] += res.Stats.Stalls
	}
	if res.Aborted != "" {
		if strings.HasPrefix(res.Aborted, "panic") {
			o.Infra = res.Aborted + "\n" + res.Blocked
		} else if o.Inconclusive == "" {
			o.Inconclusive = res.Aborted
		}
	}
	if opts.Trace {
		o.Trace = res.Trace
		o.Events = fmtEvents(res.Events, 400)
	}
}

// fsOf is shorthand for the world's file system.
func fsOf(w *simrt.World) *simos.FS { return simos.WorldFS(w) }

func mustJSON(v any) string {
	b, _ := json.Marshal(v)
	return string(b)
}
