package engines

import (
	"fmt"
	"sort"
	"strings"
	"syscall"
	"testing"
	"time"

	"github.com/ErdemOzgen/blackdagger/internal/dag"
	dagsched "github.com/ErdemOzgen/blackdagger/internal/dag/scheduler"
	"github.com/ErdemOzgen/blackdagger/internal/persistence/jsondb"
	"github.com/ErdemOzgen/blackdagger/internal/verifsim/simexec"
	"github.com/ErdemOzgen/blackdagger/internal/verifsim/simrt"
	"github.com/google/uuid"
)

// storesim (C18): create / save / rename / delete / list over several DAG
// names through the real API handlers -> client -> local DAG store + jsondb on
// the simulated disk, interleaved with recorded runs, compared with a small
// reference model after every operation; and a kill of the saving process
// before / after / inside every simulated system call of a save.

func init() {
	register("storesim", storesim)
	PropEngines["C18"] = struct {
		Engine   string
		Variants []string
	}{"storesim", []string{"seq", "savecrash", "seq"}}
}

// Names are prefix-related and contain spaces; none contains a dot, because a dotted name is taken to
// carry its own extension (the definition of "a.b" is the file "a.b", not "a.b.yaml") and that
// convention is outside the property.
var storeNames = []string{"a", "a b", "ab", "a-b", "a_c", "rep", "rep ort", "Zed"}

type storeOp struct {
	Kind string `json:"kind"` // create save rename delete run update list sleep
	A    int    `json:"a"`    // name index
	B    int    `json:"b,omitempty"`
	Text int    `json:"text,omitempty"` // text class for save
	Via  int    `json:"via,omitempty"`  // 0 = cached long-lived server, 1 = fresh server process
	Zone int    `json:"zone,omitempty"` // run: the recording process lives in a time zone this many minutes ahead of the server's
	Alias  int  `json:"alias,omitempty"`  // the operand is named with an extension in the request: 1 = name.yml, 2 = name.yaml (the same DAG)
	AliasB int  `json:"aliasB,omitempty"` // the same for the target of a rename
	Straddle bool `json:"straddle,omitempty"` // run: the run is still in progress while the next operation is carried out, and ends after it
}

type storeScenario struct {
	Variant string    `json:"variant"`
	Names   []string  `json:"names"`
	Ops     []storeOp `json:"ops"`
	Victim  *storeOp  `json:"victim,omitempty"`
	CrashAt []int     `json:"crashAt,omitempty"`
	Sched   SchedCfg  `json:"sched"`
}

type sRun struct {
	id      string
	marker  int
	started time.Time
}

type storeModel struct {
	text map[string]string  // name -> definition text
	hist map[string][]*sRun // name -> runs, oldest first
}

const (
	txValid = iota
	txValidBig
	txValidSched
	txBadYAML
	txUnknownKey
	txNoCommand
	txNoName
	txBadCron
	txStepsString
	txEmpty
	nTextClasses
)

var textClassNames = []string{"valid", "valid-256k", "valid-schedule", "bad-yaml", "unknown-key", "step-without-command", "step-without-name", "bad-cron", "steps-not-a-list", "empty"}

// storeText returns a candidate definition text that is valid or invalid by
// construction; marker makes every text unique.
func storeText(class, marker int) (text string, valid int) { // valid: 1 yes, 0 no, 2 either
	base := fmt.Sprintf("steps:\n  - name: s%d\n    command: echo %d\n", marker, marker)
	switch class {
	case txValid:
		return base, 1
	case txValidBig:
		var b strings.Builder
		b.WriteString("steps:\n")
		for i := 0; b.Len() < 256*1024; i++ {
			fmt.Fprintf(&b, "  - name: s%d_%d\n    command: echo %d %s\n", marker, i, i, strings.Repeat("x", 200))
		}
		return b.String(), 1
	case txValidSched:
		return fmt.Sprintf("schedule: \"%d * * * *\"\n", marker%60) + base, 1
	case txBadYAML:
		return fmt.Sprintf("steps:\n  - name: [unclosed%d\n", marker), 0
	case txUnknownKey:
		return fmt.Sprintf("bogus%d: 1\n", marker) + base, 0
	case txNoCommand:
		return fmt.Sprintf("steps:\n  - name: s%d\n", marker), 0
	case txNoName:
		return fmt.Sprintf("steps:\n  - command: echo %d\n", marker), 0
	case txBadCron:
		return fmt.Sprintf("schedule: \"not a cron %d\"\n", marker) + base, 0
	case txStepsString:
		return fmt.Sprintf("steps: \"s%d\"\n", marker), 0
	default:
		return "", 2
	}
}

func genStoreOps(tp *simrt.Tape, nNames, maxOps int) []storeOp {
	n := 4 + tp.Draw(simrt.SGen, maxOps-3)
	var ops []storeOp
	if chance(tp, 1, 4) && nNames >= 2 {
		// motif: a name that was used, ran and was deleted is taken again by a rename of a DAG with history
		x, y := tp.Draw(simrt.SGen, nNames), tp.Draw(simrt.SGen, nNames)
		if x != y {
			ops = append(ops, storeOp{Kind: "create", A: x}, storeOp{Kind: "run", A: x}, storeOp{Kind: "delete", A: x, Via: tp.Draw(simrt.SGen, 2)},
				storeOp{Kind: "create", A: y}, storeOp{Kind: "run", A: y}, storeOp{Kind: "rename", A: y, B: x, Via: tp.Draw(simrt.SGen, 2)})
		}
	}
	for i := 0; i < n; i++ {
		k := pick(tp, "create", "create", "save", "save", "save", "rename", "rename", "delete", "run", "run", "run", "update", "list", "sleep")
		op := storeOp{Kind: k, A: tp.Draw(simrt.SGen, nNames), B: tp.Draw(simrt.SGen, nNames), Text: tp.Draw(simrt.SGen, nTextClasses), Via: tp.Draw(simrt.SGen, 3) / 2}
		if k != "run" && k != "update" && chance(tp, 1, 6) {
			// the same DAG addressed by its file name (report.yml and report.yaml are the DAG "report")
			op.Alias = 1 + tp.Draw(simrt.SGen, 2)
		}
		if k == "rename" && chance(tp, 1, 6) {
			op.AliasB = 1 + tp.Draw(simrt.SGen, 2)
		}
		if k == "run" {
			// `start` typed in a shell whose TZ differs from the server's: the record's file name carries that wall clock
			op.Zone = pick(tp, 0, 0, 0, 540, 60, 330)
			op.Straddle = chance(tp, 1, 4)
		}
		ops = append(ops, op)
	}
	return ops
}

type storeCtx struct {
	w      *simrt.World
	sc     *storeScenario
	m      *storeModel
	out    *Outcome
	srv    *apiServer // long-lived (its caches survive across operations)
	marker int
	killed func() bool
	statFaultOn  bool    // fault "stat_error": the look-up of an existing target of a create or rename fails (EIO)
	statFaultAt  *string // the path whose next stat by the server fails
	unlinkFaults *int // injected failures of the server's unlink of history records so far (nil: none are injected)
	pending      func() // the end of a run that is still in progress (straddles the next operation)
}

func (h *storeCtx) viol(clause, disc, format string, a ...any) {
	h.out.Violations = append(h.out.Violations, Violation{Prop: "C18", Clause: clause, Disc: disc, Msg: fmt.Sprintf(format, a...)})
}

func (h *storeCtx) snapshot() (map[string]string, map[string]string) {
	return dumpDir(h.w, dagsDir), dumpDir(h.w, dataDir)
}

// server runs fn against the long-lived server or a fresh server process.
func (h *storeCtx) server(via int, fn func(s *apiServer)) {
	if via == 0 {
		fn(h.srv)
		return
	}
	inProc(h.w, "server2", func() { fn(newAPIServer()) })
}

func act(s string) *string { return &s }

// applyOp performs one operation and checks its result against the model.
// It returns false if the operation was not applicable (skipped).
func (h *storeCtx) applyOp(i int, op storeOp) bool {
	names := h.sc.Names
	a, b := names[op.A%len(names)], names[op.B%len(names)]
	_, aExists := h.m.text[a]
	_, bExists := h.m.text[b]
	tag := fmt.Sprintf("op %d %s", i, op.Kind)
	ext := []string{"", ".yml", ".yaml"}
	ra, rb := a+ext[op.Alias%3], b+ext[op.AliasB%3] // the names as the request spells them
	if op.Alias != 0 || op.AliasB != 0 {
		bump(h.out, "dag_addressed_by_file_name")
	}
	switch op.Kind {
	case "sleep":
		simrt.Sleep(time.Duration(1+op.Text*700) * time.Millisecond)
		return true
	case "create":
		var r apiResp
		if aExists && h.statFaultOn {
			*h.statFaultAt = dagFile(a)
		}
		h.server(op.Via, func(s *apiServer) { r = s.create(ra) })
		if h.statFaultAt != nil {
			*h.statFaultAt = ""
		}
		if h.killed() {
			return true
		}
		if aExists {
			bump(h.out, "create_on_existing")
			if r.ok() {
				h.viol("create-existing-accepted", "response", "%s: create of %q, which exists, was answered %d", tag, a, r.Code)
			}
		} else {
			if !r.ok() {
				h.viol("create-failed", "response", "%s: create of new DAG %q failed: %d %s", tag, a, r.Code, r.Msg)
				return true
			}
			got, ok := fsOf(h.w).GetFile(dagFile(a))
			if !ok {
				h.viol("create-no-file", "file", "%s: create of %q answered 200 but no definition file exists", tag, a)
				return true
			}
			h.m.text[a] = string(got) // the template: whatever it is, it is now the definition
			if _, err := dag.LoadYAML(got); err != nil {
				h.viol("create-invalid-template", "file", "%s: the created definition is not a valid DAG: %v", tag, err)
			}
		}
	case "save":
		h.marker++
		text, valid := storeText(op.Text, h.marker)
		var r apiResp
		h.server(op.Via, func(s *apiServer) { r = s.action(ra, act("save"), text, "", "", "") })
		if h.killed() {
			return true
		}
		cls := textClassNames[op.Text]
		switch {
		case !aExists:
			bump(h.out, "save_on_missing")
			if r.ok() {
				h.viol("save-missing-accepted", cls, "%s: save of %q, which does not exist, was answered %d", tag, a, r.Code)
			}
		case valid == 0:
			bump(h.out, "save_invalid_text")
			if r.ok() {
				h.viol("save-invalid-accepted", cls, "%s: save of an invalid definition (%s) over %q was answered %d", tag, cls, a, r.Code)
			}
		case valid == 1:
			bump(h.out, "save_valid_text")
			if !r.ok() {
				h.viol("save-valid-rejected", cls, "%s: save of a valid definition (%s) over %q failed: %d %s", tag, cls, a, r.Code, r.Msg)
			} else {
				h.m.text[a] = text
			}
		default:
			if r.ok() {
				h.m.text[a] = text
			}
		}
	case "rename":
		if a == b {
			return false // renaming a DAG onto itself is not specified
		}
		var r apiResp
		if aExists && bExists && h.statFaultOn {
			*h.statFaultAt = dagFile(b)
		}
		h.server(op.Via, func(s *apiServer) { r = s.action(ra, act("rename"), rb, "", "", "") })
		if h.statFaultAt != nil {
			*h.statFaultAt = ""
		}
		if h.killed() {
			return true
		}
		switch {
		case !aExists:
			bump(h.out, "rename_missing")
			if r.ok() {
				h.viol("rename-missing-accepted", "response", "%s: rename of %q, which does not exist, was answered %d", tag, a, r.Code)
			}
		case bExists:
			bump(h.out, "rename_onto_existing")
			// the target must be left alone; nothing is demanded of the response
			got, ok := fsOf(h.w).GetFile(dagFile(b))
			src, srcOK := fsOf(h.w).GetFile(dagFile(a))
			if !ok || string(got) != h.m.text[b] || !srcOK || string(src) != h.m.text[a] {
				h.viol("rename-overwrites-existing", "definition", "%s: rename %q -> %q, which exists, was answered %d and replaced %q (was %d bytes, now %d; source still there: %v)", tag, a, b, r.Code, b, len(h.m.text[b]), len(got), srcOK)
				return true
			}
		default:
			bump(h.out, "rename_to_free_name")
			if len(h.m.hist[a]) > 0 {
				bump(h.out, "rename_with_history")
			}
			if !r.ok() && op.Alias != 0 {
				// the source was addressed by a file name: the server may not know it under that spelling. A
				// refusal is fine as long as nothing changed (the comparison that follows sees to that)
				bump(h.out, "rename_by_file_name_refused")
				return true
			}
			if !r.ok() {
				h.viol("rename-failed", histClass(h.m, a, b), "%s: rename %q -> %q (free name) failed: %d %s", tag, a, b, r.Code, r.Msg)
				// the model follows the definition file so that the consequences are reported once
				if _, ok := fsOf(h.w).GetFile(dagFile(b)); !ok {
					return true
				}
			}
			h.m.text[b] = h.m.text[a]
			delete(h.m.text, a)
			h.m.hist[b] = append(h.m.hist[b], h.m.hist[a]...)
			delete(h.m.hist, a)
		}
	case "delete":
		var r apiResp
		faultsBefore := 0
		if h.unlinkFaults != nil {
			faultsBefore = *h.unlinkFaults
		}
		h.server(op.Via, func(s *apiServer) { r = s.delete(ra) })
		if h.killed() {
			return true
		}
		if !aExists {
			bump(h.out, "delete_missing")
			if r.ok() {
				h.viol("delete-missing-accepted", "response", "%s: delete of %q, which does not exist, was answered %d", tag, a, r.Code)
			}
		} else {
			bump(h.out, "delete_existing")
			if len(h.m.hist[a]) > 0 {
				bump(h.out, "delete_with_history")
			}
			if !r.ok() {
				if h.unlinkFaults != nil && *h.unlinkFaults > faultsBefore {
					// a record could not be removed: the delete is refused, the definition stays, and of the
					// history whatever could be removed is gone (learn which)
					bump(h.out, "delete_refused_after_unlink_error")
					var left []*sRun
					fresh := jsondb.New(dataDir, true)
					for _, sr := range h.m.hist[a] {
						if _, err := fresh.FindByRequestID(dagFile(a), sr.id); err == nil {
							left = append(left, sr)
						}
					}
					h.m.hist[a] = left
					return true
				}
				h.viol("delete-failed", "response", "%s: delete of %q failed: %d %s", tag, a, r.Code, r.Msg)
				return true
			}
			delete(h.m.text, a)
			delete(h.m.hist, a)
		}
	case "run":
		if !aExists {
			return false
		}
		id, _ := uuid.NewRandom()
		for _, rs := range h.m.hist {
			for _, o := range rs {
				if o.id[:8] == id.String()[:8] {
					return false
				}
			}
		}
		h.marker++
		mk := h.marker
		r := &sRun{id: id.String(), marker: mk, started: time.Now()}
		if op.Zone != 0 {
			r.started = r.started.In(time.FixedZone("REC", op.Zone*60))
			bump(h.out, "run_recorded_in_a_zone_ahead")
		}
		var err error
		if op.Straddle && h.pending == nil {
			// the run stays open over the next operation (a DAG deleted or renamed while it runs) and ends then
			var db *jsondb.JSONDB
			inProc(h.w, "recorder", func() {
				db = jsondb.New(dataDir, true)
				if err = db.Open(dagFile(a), r.started, r.id); err != nil {
					return
				}
				err = db.Write(mkStatus(r.id, a, mk, dagsched.StatusRunning))
			})
			if err != nil {
				h.viol("record-failed", "run", "%s: recording a run of %q failed: %v", tag, a, err)
				return true
			}
			h.m.hist[a] = append(h.m.hist[a], r)
			bump(h.out, "run_in_progress_over_next_op")
			h.pending = func() {
				h.marker++
				last := h.marker
				var werr error
				inProc(h.w, "recorder", func() {
					werr = db.Write(mkStatus(r.id, a, last, dagsched.StatusSuccess))
					_ = db.Close() // what the end-of-run compaction makes of a record that is gone is its own business
				})
				for _, rs := range h.m.hist {
					for _, o := range rs {
						if o == r && werr == nil {
							r.marker = last // still on record (under whatever name): the last status is what it shows
						}
					}
				}
			}
			simrt.Sleep(2 * time.Millisecond)
			return true
		}
		inProc(h.w, "recorder", func() {
			db := jsondb.New(dataDir, true)
			if err = db.Open(dagFile(a), r.started, r.id); err != nil {
				return
			}
			if err = db.Write(mkStatus(r.id, a, mk, dagsched.StatusRunning)); err != nil {
				return
			}
			if op.Text%2 == 0 {
				h.marker++
				r.marker = h.marker
				if err = db.Write(mkStatus(r.id, a, r.marker, dagsched.StatusSuccess)); err != nil {
					return
				}
			}
			err = db.Close()
		})
		if err != nil {
			h.viol("record-failed", "run", "%s: recording a run of %q failed: %v", tag, a, err)
			return true
		}
		h.m.hist[a] = append(h.m.hist[a], r)
		simrt.Sleep(2 * time.Millisecond)
	case "update":
		rs := h.m.hist[a]
		if !aExists || len(rs) == 0 {
			return false
		}
		r := rs[op.B%len(rs)]
		h.marker++
		mk := h.marker
		var err error
		inProc(h.w, "updater", func() {
			err = jsondb.New(dataDir, true).Update(dagFile(a), r.id, mkStatus(r.id, a, mk, dagsched.StatusError))
		})
		if err != nil {
			h.viol("update-failed", "run", "%s: updating run %s of %q failed: %v", tag, r.id[:8], a, err)
			return true
		}
		r.marker = mk
	case "list":
		var got []string
		var errs []string
		var err error
		h.server(op.Via, func(s *apiServer) {
			sts, es, e := s.cli.GetAllStatus()
			errs, err = es, e
			for _, st := range sts {
				got = append(got, strings.TrimSuffix(strings.TrimPrefix(st.DAG.Location, dagsDir+"/"), ".yaml"))
			}
		})
		if h.killed() {
			return true
		}
		sort.Strings(got)
		want := sortedKeys(h.m.text)
		bump(h.out, "list")
		if err != nil || len(errs) > 0 || strings.Join(got, "|") != strings.Join(want, "|") {
			h.viol("list-mismatch", "names", "%s: listing returned %q (errors %v %v), the DAGs that exist are %q", tag, got, errs, err, want)
		}
	}
	return true
}

func histClass(m *storeModel, a, b string) string {
	if len(m.hist[a]) > 0 {
		return "with-history"
	}
	return "no-history"
}

// compare checks the whole observable state against the model: definition
// files byte for byte, and every DAG's history through the client.
func (h *storeCtx) compare(tag string, via int, involved ...string) {
	defs := dumpDir(h.w, dagsDir)
	inv := map[string]bool{}
	for _, n := range involved {
		inv[n] = true
	}
	role := func(n string) string {
		if inv[n] {
			return "operand"
		}
		return "other-dag"
	}
	for _, n := range h.sc.Names {
		got, exists := defs[dagFile(n)]
		want, should := h.m.text[n]
		switch {
		case should && !exists:
			h.viol("definition-lost", role(n), "%s: the definition of %q no longer exists", tag, n)
		case !should && exists:
			h.viol("definition-appeared", role(n), "%s: a definition file for %q exists although no such DAG should (%d bytes)", tag, n, len(got))
		case should && got != want:
			h.viol("definition-changed", role(n)+"/"+classify([]byte(got), []byte(want)), "%s: the definition of %q holds %d bytes, expected the %d bytes last saved (%s)", tag, n, len(got), len(want), diffHead(got, want))
		}
	}
	for p := range defs {
		known := false
		for _, n := range h.sc.Names {
			if p == dagFile(n) {
				known = true
			}
		}
		// only what a listing would take for a DAG counts (a temporary file left by a killed save does not)
		if !known && (strings.HasSuffix(p, ".yaml") || strings.HasSuffix(p, ".yml")) {
			h.viol("stray-file", "dags-dir", "%s: unexpected file %s in the DAGs directory", tag, p)
		}
	}
	h.server(via, func(s *apiServer) {
		for _, n := range h.sc.Names {
			want := h.m.hist[n]
			sfs := s.cli.GetRecentHistory(&dag.DAG{Name: n, Location: dagFile(n)}, 1000)
			var got []string
			for _, sf := range sfs {
				got = append(got, fmt.Sprintf("%s:%d", sf.Status.RequestID[:8], markerOf(sf.Status)))
			}
			var exp []string
			for i := len(want) - 1; i >= 0; i-- {
				exp = append(exp, fmt.Sprintf("%s:%d", want[i].id[:8], want[i].marker))
			}
			for _, r := range want {
				if _, off := r.started.Zone(); off != 0 {
					// records named by wall clocks of different zones: the store lists by name, which is then not
					// the order of recording; the property speaks of the history being available, so compare as sets
					sort.Strings(got)
					sort.Strings(exp)
					break
				}
			}
			if strings.Join(got, " ") != strings.Join(exp, " ") {
				cl := "history-mismatch"
				switch {
				case len(got) < len(exp):
					cl = "history-lost"
				case len(got) > len(exp):
					cl = "history-left-behind"
				}
				h.viol(cl, role(n), "%s: the history of %q is [%s], expected [%s]", tag, n, strings.Join(got, " "), strings.Join(exp, " "))
			}
			if _, ok := h.m.text[n]; ok {
				spec, err := s.cli.GetDAGSpec(n)
				if err != nil || spec != h.m.text[n] {
					h.viol("spec-read-mismatch", role(n), "%s: GetDAGSpec(%q) returned %d bytes, err %v; expected %d bytes", tag, n, len(spec), err, len(h.m.text[n]))
				}
			}
		}
	})
}

func diffHead(got, want string) string {
	i := 0
	for i < len(got) && i < len(want) && got[i] == want[i] {
		i++
	}
	g, w := got[i:], want[i:]
	if len(g) > 30 {
		g = g[:30]
	}
	if len(w) > 30 {
		w = w[:30]
	}
	return fmt.Sprintf("first difference at byte %d: %q vs %q", i, g, w)
}

func storesim(t *testing.T, tp *simrt.Tape, opts RunOpts) *Outcome {
	out := &Outcome{}
	sc := &storeScenario{Variant: opts.Variant}
	schedCfg, cfg := drawSchedCfg(tp, false)
	sc.Sched = schedCfg
	cfg.TraceOps = opts.Trace
	cfg.MaxFakeTime = 30 * 24 * time.Hour
	cfg.MaxSteps = 3_000_000
	nn := 2 + tp.Draw(simrt.SGen, 3)
	perm := append([]string{}, storeNames...)
	for i := len(perm) - 1; i > 0; i-- {
		j := tp.Draw(simrt.SGen, i+1)
		perm[i], perm[j] = perm[j], perm[i]
	}
	sc.Names = perm[:nn]
	out.Sample = sc
	if sc.Variant == "savecrash" {
		sc.Ops = genStoreOps(tp, nn, 8)
		return storeCrash(t, tp, cfg, sc, out, opts)
	}
	maxOps := 16
	if opts.Thorough {
		maxOps = 40
	}
	sc.Ops = genStoreOps(tp, nn, maxOps)
	// fault "unlink_error": in a quarter of the sequences half of the server's removals of history records
	// fail (I/O error, immutable file): a delete that could not remove everything must say so and keep the
	// definition, not report success over what it left behind
	// fault "stat_error": in a quarter of the sequences the look-up of the (existing) target of a create or
	// rename fails with an I/O error: a name that cannot be looked up is not a free name
	statFaultOn := chance(tp, 1, 4)
	statFaultAt := new(string)
	if statFaultOn {
		cfg.FaultPlan = func(op *simrt.OpInfo) simrt.Fault {
			if *statFaultAt == "" || op.Kind != "stat" || op.Path != *statFaultAt || op.Proc.Name != "server" {
				return simrt.Fault{}
			}
			op.Proc.W.CountFault("stat_error")
			return simrt.Fault{Kind: simrt.FErr, Errno: syscall.EIO}
		}
	}
	var unlinkFaults *int
	if !statFaultOn && chance(tp, 1, 3) {
		unlinkFaults = new(int)
		// motif: a DAG with several recorded runs is deleted (and its name taken again)
		x := tp.Draw(simrt.SGen, nn)
		pre := []storeOp{{Kind: "create", A: x}}
		for i := 2 + tp.Draw(simrt.SGen, 3); i > 0; i-- {
			pre = append(pre, storeOp{Kind: "run", A: x, Text: tp.Draw(simrt.SGen, 2)}, storeOp{Kind: "sleep"})
		}
		pre = append(pre, storeOp{Kind: "delete", A: x, Via: tp.Draw(simrt.SGen, 2)}, storeOp{Kind: "create", A: x}, storeOp{Kind: "delete", A: x})
		sc.Ops = append(pre, sc.Ops...)
		cfg.FaultPlan = func(op *simrt.OpInfo) simrt.Fault {
			if op.Kind != "unlink" || op.Proc.Name != "server" || !strings.HasSuffix(op.Path, ".dat") || !tp.Chance(simrt.SFault, 1, 2) {
				return simrt.Fault{}
			}
			*unlinkFaults++
			op.Proc.W.CountFault("unlink_error")
			return simrt.Fault{Kind: simrt.FErr, Errno: pick2(tp, syscall.EIO, syscall.EPERM)}
		}
	}
	res := simrt.Run(t, cfg, func(w *simrt.World) {
		seedIDs(tp)
		setupDirs(w)
		h := &storeCtx{w: w, sc: sc, m: &storeModel{text: map[string]string{}, hist: map[string][]*sRun{}}, out: out, killed: func() bool { return false }, unlinkFaults: unlinkFaults, statFaultOn: statFaultOn, statFaultAt: statFaultAt}
		inProc(w, "server", func() {
			h.srv = newAPIServer()
			for i, op := range sc.Ops {
				ending := h.pending
				if !h.applyOp(i, op) || op.Kind == "sleep" {
					continue
				}
				names := sc.Names
				h.compare(fmt.Sprintf("after op %d %s", i, op.Kind), i%2, names[op.A%len(names)], names[op.B%len(names)])
				if len(out.Violations) > 0 {
					break
				}
				if ending != nil {
					h.pending = nil
					ending()
					h.compare(fmt.Sprintf("after the end of the run that was in progress during op %d %s", i, op.Kind), i%2, names[op.A%len(names)], names[op.B%len(names)])
					if len(out.Violations) > 0 {
						break
					}
				}
			}
			if h.pending != nil && len(out.Violations) == 0 {
				h.pending()
				h.pending = nil
			}
		})
		out.NonTrivial = len(h.m.text) > 0 || len(h.m.hist) > 0
	})
	fillOutcome(out, res, opts)
	if len(res.Panics) > 0 {
		out.Violations = append(out.Violations, Violation{Prop: "C18", Clause: "panic", Disc: panicDisc(res.Panics[0]), Msg: res.Panics[0]})
	}
	return out
}

// storeCrash: a small prior sequence, then one save by a server process that
// is killed before / after / inside each of its simulated system calls.
func storeCrash(t *testing.T, tp *simrt.Tape, cfg simrt.Config, sc *storeScenario, out *Outcome, opts RunOpts) *Outcome {
	victim := storeOp{Kind: "save", A: tp.Draw(simrt.SGen, len(sc.Names)), Text: pick(tp, txValid, txValid, txValidBig, txValidSched, txEmpty, txBadYAML), Via: tp.Draw(simrt.SGen, 2)}
	sc.Victim = &victim
	type armed struct{ k, mode, frac int }
	var victimSyscalls []string
	runWorld := func(arm *armed, trace bool) *simrt.Result {
		c := cfg
		c.TraceOps = trace
		victimPhase, crashed := false, false
		nOps := 0
		detail := ""
		c.FaultPlan = func(op *simrt.OpInfo) simrt.Fault {
			if !victimPhase || crashed || op.Proc.Name != "victim" {
				return simrt.Fault{}
			}
			k := nOps
			nOps++
			if arm == nil {
				victimSyscalls = append(victimSyscalls, op.Kind)
				return simrt.Fault{}
			}
			if k != arm.k {
				return simrt.Fault{}
			}
			crashed = true
			detail = fmt.Sprintf("save-op=%s/%s", op.Kind, []string{"kill-before", "kill-after", "torn"}[arm.mode])
			switch arm.mode {
			case 0:
				return simrt.Fault{Kind: simrt.FKillBefore}
			case 1:
				return simrt.Fault{Kind: simrt.FKillAfter}
			default:
				if op.Kind != "write" || op.Len == 0 {
					return simrt.Fault{Kind: simrt.FKillAfter}
				}
				return simrt.Fault{Kind: simrt.FTorn, N: []int{0, 1, op.Len / 2, op.Len - 1}[arm.frac%4]}
			}
		}
		res := simrt.Run(t, c, func(w *simrt.World) {
			seedIDs(tp)
			setupDirs(w)
			h := &storeCtx{w: w, sc: sc, m: &storeModel{text: map[string]string{}, hist: map[string][]*sRun{}}, out: out, killed: func() bool { return crashed }}
			name := sc.Names[victim.A%len(sc.Names)]
			var oldText, newText string
			valid := 0
			base := len(out.Violations)
			inProc(w, "server", func() {
				h.srv = newAPIServer()
				// make sure the victim's DAG exists and has a previous, distinctive text
				h.applyOp(-2, storeOp{Kind: "create", A: victim.A})
				h.applyOp(-1, storeOp{Kind: "save", A: victim.A, Text: pick(tp, txValid, txValidBig, txValidSched)})
				for i, op := range sc.Ops {
					h.applyOp(i, op)
				}
			})
			if len(out.Violations) > base {
				out.Violations = out.Violations[:base] // the sequential batch judges those
				return
			}
			var ok bool
			if oldText, ok = h.m.text[name]; !ok {
				return // the prior sequence deleted or renamed it: nothing to save over
			}
			h.marker += 1000
			newText, valid = storeText(victim.Text, h.marker)
			var r apiResp
			done := false
			victimPhase = true
			vp := w.Spawn(simrt.CurProc(), "victim", []string{"victim"}, baseEnv(nil), workDir, true, func(p *simrt.Proc) int {
				s := newAPIServer()
				r = s.action(name, act("save"), newText, "", "", "")
				done = true
				return 0
			})
			simexec.WaitProc(vp)
			victimPhase = false
			if crashed {
				bump(out, "crash_landed")
				w.Probe("crash:" + detail)
			}
			got, exists := fsOf(w).GetFile(dagFile(name))
			disc := textClassNames[victim.Text]
			switch {
			case !exists:
				h.viol("save-crash-file-gone", disc, "after a kill during save (%s) the definition of %q no longer exists", detail, name)
			case string(got) == oldText:
				bump(out, "after_crash_old_text")
				if done && r.ok() && valid == 1 {
					h.viol("save-acknowledged-but-old", disc, "save of %q was answered %d but the file still holds the old text", name, r.Code)
				}
			case string(got) == newText && valid != 0:
				bump(out, "after_crash_new_text")
			default:
				what := "a mix"
				if len(got) == 0 {
					what = "nothing (truncated)"
				} else if strings.HasPrefix(newText, string(got)) {
					what = "a prefix of the new text"
				}
				cl := "save-crash-partial"
				if !crashed {
					cl = "save-partial"
				}
				h.viol(cl, disc, "after a kill during save (%s) the definition of %q holds %s: %d bytes; old text %d bytes, new text %d bytes", detail, name, what, len(got), len(oldText), len(newText))
			}
			// a later save is not disturbed by whatever the killed one left behind
			if exists && chance(tp, 2, 3) {
				h.marker++
				follow, _ := storeText(pick(tp, txValid, txValid, txValidSched, txValidBig), h.marker)
				var r2 apiResp
				inProc(w, "server2", func() { r2 = newAPIServer().action(name, act("save"), follow, "", "", "") })
				got2, _ := fsOf(w).GetFile(dagFile(name))
				bump(out, "save_after_killed_save")
				if !r2.ok() {
					h.viol("save-after-crash-rejected", disc, "a valid save of %q after a killed save (%s) was answered %d %s", name, detail, r2.Code, r2.Msg)
				} else if string(got2) != follow {
					h.viol("save-after-crash-corrupt", disc+"/"+classify(got2, []byte(follow)), "after a killed save (%s) a later save of %d bytes was answered %d but the definition of %q holds %d bytes (%s)", detail, len(follow), r2.Code, name, len(got2), diffHead(string(got2), follow))
				}
				got = got2
			}
			// every other DAG and all histories are untouched
			h.m.text[name] = string(got)
			h2 := *h
			inProc(w, "server3", func() {
				h2.srv = newAPIServer()
				h2.compare("after the save", 0, name)
			})
		})
		return res
	}
	res := runWorld(nil, false)
	fillOutcome(out, res, opts)
	out.Evals = 1
	if len(res.Panics) > 0 {
		out.Violations = append(out.Violations, Violation{Prop: "C18", Clause: "panic", Disc: panicDisc(res.Panics[0]), Msg: res.Panics[0]})
	}
	n := len(victimSyscalls)
	if n == 0 || out.Infra != "" {
		return out
	}
	var arms []armed
	if opts.Thorough {
		for k := 0; k < n; k++ {
			arms = append(arms, armed{k, 0, 0}, armed{k, 1, 0})
			if victimSyscalls[k] == "write" {
				for f := 0; f < 4; f++ {
					arms = append(arms, armed{k, 2, f})
				}
			}
		}
	} else {
		for i := 0; i < 6; i++ {
			arms = append(arms, armed{tp.Draw(simrt.SFault, n), tp.Draw(simrt.SFault, 3), tp.Draw(simrt.SFault, 4)})
		}
	}
	for i, a := range arms {
		sc.CrashAt = append(sc.CrashAt, a.k*10+a.mode)
		last := i == len(arms)-1
		r2 := runWorld(&a, opts.Trace && last)
		out.Evals++
		out.Steps += r2.Steps
		out.FakeTime += r2.FakeTime
		out.TraceHash ^= r2.TraceHash * uint64(i+3)
		out.SchedSig ^= r2.SchedSig * uint64(i+3)
		for k, v := range r2.Stats.Faults {
			if out.Faults == nil {
				out.Faults = map[string]int{}
			}
			out.Faults[k] += v
		}
		for k := range r2.Stats.Probes {
			bump(out, k)
		}
		if opts.Trace && last {
			out.Trace = r2.Trace
			out.Events = fmtEvents(r2.Events, 400)
		}
		if len(r2.Panics) > 0 {
			out.Violations = append(out.Violations, Violation{Prop: "C18", Clause: "panic", Disc: panicDisc(r2.Panics[0]), Msg: r2.Panics[0]})
		}
		if r2.Aborted != "" {
			out.Inconclusive = r2.Aborted
		}
	}
	out.NonTrivial = out.Probes["crash_landed"] > 0
	return out
}
