package engines

import (
	"fmt"
	"path"
	"sort"
	"strings"
	"syscall"
	"time"

	"github.com/ErdemOzgen/blackdagger/internal/verifsim/simrt"
)

// Variant "iofault" of stepsim (C01, C03, C04): the scheduling batch with a disk that misbehaves. Some of the
// agent's own file operations on step log files, handler log files and script files fail (no space, I/O
// error, too many open files). What a fault may legitimately cost is narrow: the step (or handler) whose
// file was hit may be reported failed, or not run at all. Everything else must stay as stated:
//
//   - order (C01): no step starts while an attempt of a dependency is open, no attempt of a dependency
//     starts after a dependent has started, and every dependency permits (its last execution succeeded, or it
//     is finally failed/skipped and its continueOn says so);
//   - attempts (C03): at most 1 + retry limit executions, never two at once, and a step reported finished
//     has executed its command and its last execution succeeded (a shell that was handed an incomplete
//     script file has not executed the command);
//   - outcome (C04): finished iff every step is finished or skipped, failed iff some step is failed; a step
//     is failed only for a cause (its last execution failed, or a fault hit its files); the handler matching
//     the outcome runs once (or not at all if its own log file could not be set up), no other outcome handler
//     runs, onExit runs last; a handler that cannot be set up does not change the outcome.

type ioFaultCfg struct {
	Classes []string `json:"classes"` // log-open log-write log-sync script-write handler-open pipe-open
	Den     int      `json:"den"`     // one in Den eligible operations fails
}

var handlerLogName = map[string]string{"onExit": "on_exit", "onSuccess": "on_success", "onFailure": "on_failure", "onCancel": "on_cancel"}

func drawIOFaultCfg(tp *simrt.Tape) *ioFaultCfg {
	c := &ioFaultCfg{Den: pick(tp, 2, 4, 8, 20)}
	for _, k := range []string{"log-open", "log-write", "log-sync", "script-write", "handler-open", "pipe-open"} {
		if chance(tp, 1, 2) {
			c.Classes = append(c.Classes, k)
		}
	}
	if len(c.Classes) == 0 {
		c.Classes = []string{pick(tp, "log-open", "log-write", "log-sync", "script-write", "handler-open", "pipe-open")}
	}
	return c
}

// ioFaultPlan returns the fault plan and the set (filled while the world runs) of step and handler names
// whose files met an injected error.
func ioFaultPlan(tp *simrt.Tape, fc *ioFaultCfg, agentPid func() int) (func(op *simrt.OpInfo) simrt.Fault, map[string]bool) {
	touched := map[string]bool{}
	on := map[string]bool{}
	for _, k := range fc.Classes {
		on[k] = true
	}
	gStep := map[string]string{} // goroutine -> the step whose log it last touched (attributes the script file)
	return func(op *simrt.OpInfo) simrt.Fault {
		if op.Proc.Pid != agentPid() {
			return simrt.Fault{}
		}
		base := path.Base(op.Path)
		name, class := "", ""
		if op.Kind == "stat" && strings.HasPrefix(op.Path, missingDirPrefix) {
			// not an injected fault: the look-up of a working directory that does not exist. The attempt ends
			// here, without a process; the instant places the retry wait that follows
			touched[base] = true
			op.Proc.W.CountFault("missing_dir")
			op.Proc.W.Emit("attempt_failed_in_setup", base, "missing-dir", 0, nil)
			return simrt.Fault{}
		}
		switch {
		case strings.HasPrefix(op.Path, logsDir+"/") && strings.HasSuffix(base, ".log"):
			name = base[:strings.IndexByte(base, '.')]
			isHandler := false
			if h, ok := handlerLogName[name]; ok {
				name, isHandler = h, true
			}
			gStep[op.G.ID] = name
			switch op.Kind {
			case "open":
				class = "log-open"
				if isHandler {
					class = "handler-open"
				}
			case "write":
				class = "log-write"
			case "fsync":
				class = "log-sync"
			}
		case op.Kind == "pipe":
			// the pipe of a step that captures its output (created when the step's executor is set up)
			name = gStep[op.G.ID]
			if name != "" {
				class = "pipe-open"
			}
		case strings.Contains(base, "blackdagger_script-"):
			name = gStep[op.G.ID]
			if op.Kind == "write" {
				class = "script-write"
			}
		}
		if class == "" || !on[class] || !tp.Chance(simrt.SFault, 1, fc.Den) {
			return simrt.Fault{}
		}
		if name == "" {
			name = "?script"
		}
		touched[name] = true
		touched["!"+name] = true // an injected error (as opposed to a working directory that is simply not there)
		errno := syscall.ENOSPC
		switch class {
		case "pipe-open":
			errno = syscall.EMFILE
		case "log-open", "handler-open":
			errno = pick2(tp, syscall.EMFILE, syscall.ENOSPC)
		case "log-sync":
			errno = syscall.EIO
		case "log-write":
			errno = pick2(tp, syscall.ENOSPC, syscall.EIO)
		}
		op.Proc.W.CountFault("io_error:" + class)
		if class == "log-write" {
			// what the step printed into this file is lost from here on (the buffered writer keeps its error)
			op.Proc.W.Emit("log_write_failed", name, op.Path, 0, nil)
		}
		if class == "pipe-open" {
			// the attempt ends here without a process: the instant is needed to place the retry wait that follows
			op.Proc.W.Emit("attempt_failed_in_setup", name, class, 0, nil)
		}
		n := 0
		if (class == "script-write" || class == "log-write") && op.Len > 1 && tp.Chance(simrt.SFault, 1, 2) {
			n = op.Len / 2 // a short write: half of the data reaches the file before the error
		}
		return simrt.Fault{Kind: simrt.FErr, Errno: errno, N: n}
	}, touched
}

func pick2(tp *simrt.Tape, a, b syscall.Errno) syscall.Errno {
	if tp.Chance(simrt.SFault, 1, 2) {
		return a
	}
	return b
}

func (c *stepCheck) checkIOFault(hung bool) {
	d := c.sc.Dag
	if hung {
		c.viol(firstNonEmpty(c.prop, "C04"), "no-termination", "iofault", "run with failing file operations did not end within %v of simulated time; live: %s", c.res.FakeTime, c.liveSummary())
		return
	}
	if c.ar == nil || !c.ar.started {
		if c.ar != nil && c.ar.loadErr != nil {
			c.out.Infra = "generated DAG rejected by loader: " + c.ar.loadErr.Error()
		}
		return
	}
	if c.final == nil {
		c.viol(firstNonEmpty(c.prop, "C04"), "no-final-status", "iofault", "agent exited (code %d, err %v) without a persisted status", c.ar.proc.ExitCode, c.ar.runErr)
		return
	}
	touched := c.ioTouched
	anyScriptTouched := touched["?script"]
	isTouched := func(name string) bool {
		if touched[name] {
			return true
		}
		if sp := d.Step(name); sp != nil && sp.Script != "" && anyScriptTouched {
			return true
		}
		return false
	}
	if len(touched) > 0 {
		bump(c.out, "run_with_file_fault")
		c.out.NonTrivial = true
	}
	runsBy := map[string][]*StepRun{}
	var lastStepEnd uint64
	for _, r := range c.truth.Runs {
		runsBy[r.Name] = append(runsBy[r.Name], r)
		if !isHandlerStep(r.Name) && r.EndSeq > lastStepEnd {
			lastStepEnd = r.EndSeq
		}
	}
	label := map[string]string{}
	retries := map[string]int{}
	for _, n := range c.final.Nodes {
		label[n.Step.Name] = nodeLabel(n)
		retries[n.Step.Name] = n.RetryCount
	}
	lastOK := func(name string) bool {
		rs := runsBy[name]
		if len(rs) == 0 {
			return false
		}
		l := rs[len(rs)-1]
		return l.EndSeq != 0 && l.Code == 0 && l.Signaled == "" && !l.Partial
	}
	tag := func(name string) string {
		if isTouched(name) {
			return "file-fault-on-step"
		}
		return "step-without-fault"
	}

	// ---- order (C01)
	for _, r := range c.truth.Runs {
		if isHandlerStep(r.Name) {
			continue
		}
		sp := d.Step(r.Name)
		if sp == nil {
			continue
		}
		for _, dn := range sp.Depends {
			dep := d.Step(dn)
			for _, dr := range runsBy[dn] {
				if dr.StartSeq < r.StartSeq && (dr.EndSeq == 0 || dr.EndSeq > r.StartSeq) {
					c.viol("C01", "dep-still-running", "iofault/"+tag(dn), "step %s (attempt %d) started at #%d while dependency %s attempt %d was still running (ended #%d)", r.Name, r.Attempt, r.StartSeq, dn, dr.Attempt, dr.EndSeq)
				}
				if dr.StartSeq > r.StartSeq {
					c.viol("C01", "dep-ran-later", "iofault/"+tag(dn), "step %s started at #%d but dependency %s was executed again later (#%d): it had not finished its last attempt", r.Name, r.StartSeq, dn, dr.StartSeq)
				}
			}
			permitting := lastOK(dn) || (label[dn] == "failed" && dep.ContFail) || (label[dn] == "skipped" && dep.ContSkip)
			if !permitting {
				c.viol("C01", "dep-not-permitting", "iofault/"+label[dn]+"/"+tag(dn), "step %s started although dependency %s is %q (executions %d, last one succeeded: %v, continueOn failure=%v skipped=%v)", r.Name, dn, label[dn], len(runsBy[dn]), lastOK(dn), dep.ContFail, dep.ContSkip)
			}
		}
	}

	// ---- concurrency (C15): never more than maxActiveRuns steps executing at once. A step is executing while
	// a process of it is open and, after an attempt that is retried, for the retry interval; an attempt that
	// failed before any process existed (no pipe for the captured output) is followed by that wait as well.
	if d.MaxActiveRuns > 0 {
		type pt struct {
			t time.Duration
			s uint64
		}
		lessPt := func(a, b pt) bool { return a.t < b.t || (a.t == b.t && a.s < b.s) }
		type iv struct {
			s, e pt
			name string
			wait bool
		}
		var ivs []iv
		evidence := map[string][]pt{} // every attempt of a step: process starts and set-up failures
		for _, r := range c.truth.Runs {
			if !isHandlerStep(r.Name) {
				evidence[r.Name] = append(evidence[r.Name], pt{r.StartAt, r.StartSeq})
			}
		}
		var setupFails []simrt.Event
		for _, e := range c.res.Events {
			if e.Kind == "attempt_failed_in_setup" && !isHandlerStep(e.A) && d.Step(e.A) != nil {
				setupFails = append(setupFails, e)
				evidence[e.A] = append(evidence[e.A], pt{e.At, e.Seq})
			}
		}
		laterAttempt := func(name string, after pt) bool {
			for _, p := range evidence[name] {
				if lessPt(after, p) {
					return true
				}
			}
			return false
		}
		for _, r := range c.truth.Runs {
			if isHandlerStep(r.Name) {
				continue
			}
			spec := d.Step(r.Name)
			e := pt{r.EndAt, r.EndSeq}
			if r.EndSeq == 0 {
				e = pt{1 << 62, ^uint64(0)}
			} else if spec != nil && spec.RetryInterval > 0 && laterAttempt(r.Name, e) {
				e = pt{r.EndAt + time.Duration(spec.RetryInterval)*time.Second, 0}
			}
			ivs = append(ivs, iv{pt{r.StartAt, r.StartSeq}, e, r.Name, false})
		}
		for _, f := range setupFails {
			spec := d.Step(f.A)
			at := pt{f.At, f.Seq}
			if spec.RetryInterval > 0 && laterAttempt(f.A, at) {
				ivs = append(ivs, iv{at, pt{f.At + time.Duration(spec.RetryInterval)*time.Second, 0}, f.A, true})
				bump(c.out, "retry_wait_after_setup_failure")
			}
		}
		maxc := 0
		var worst []string
		for _, a := range ivs {
			if a.wait {
				continue // the instants examined are the starts of processes
			}
			n := 0
			var names []string
			seen := map[string]bool{}
			for _, b := range ivs {
				if !lessPt(a.s, b.s) && lessPt(a.s, b.e) && !seen[b.name] { // b.s <= a.s < b.e
					seen[b.name] = true
					n++
					names = append(names, b.name)
				}
			}
			if n > maxc {
				maxc, worst = n, names
			}
		}
		if maxc > d.MaxActiveRuns {
			sort.Strings(worst)
			c.viol("C15", "limit-exceeded", fmt.Sprintf("iofault/over-by-%d", maxc-d.MaxActiveRuns), "maxActiveRuns=%d but %d steps were executing (a process open, or waiting out a retry interval) at once: %v", d.MaxActiveRuns, maxc, worst)
		}
	}

	// ---- a step whose log could not be written has not finished: the attempt whose log is the recorded one
	// lost output (a write to it failed, entirely or after a short write), so it counts as failed — whether the
	// error came while the command ran or when its buffered output was flushed at the end (C04)
	{
		lost := map[string]bool{}
		for _, e := range c.res.Events {
			if e.Kind == "log_write_failed" {
				lost[e.B] = true
			}
		}
		for _, n := range c.final.Nodes {
			if lost[n.Log] && nodeLabel(n) == "finished" {
				c.viol("C04", "wrong-outcome", "iofault/finished-although-log-write-failed", "step %s is recorded finished, but a write to its log %s failed: what it printed is not all there", n.Step.Name, n.Log)
			}
			if lost[n.Log] {
				bump(c.out, "recorded_log_had_failed_write")
			}
		}
	}

	// ---- a step whose working directory does not exist (and whose files met no injected error): every
	// attempt fails while its executor is created, so it uses up its retries and ends failed, whatever else
	// happens in the run (C02: the state its own outcome dictates; C03: limit+1 attempts, limit recorded)
	if d.TimeoutSec == 0 && c.final.Status.String() != "canceled" {
		setupAttempts := map[string]int{}
		for _, e := range c.res.Events {
			if e.Kind == "attempt_failed_in_setup" && e.B == "missing-dir" {
				setupAttempts[e.A]++
			}
		}
		for i := range d.Steps {
			st := &d.Steps[i]
			n := setupAttempts[st.Name]
			if st.Dir == "" || n == 0 || touched["!"+st.Name] || len(runsBy[st.Name]) > 0 {
				continue
			}
			bump(c.out, "missing_dir_step_launched")
			if label[st.Name] != "failed" {
				c.viol("C02", "wrong-label", "iofault/missing-dir/"+strings.ReplaceAll(label[st.Name], " ", "-"), "step %s has no working directory: each of its %d attempts failed before a process was made, yet it ends %q, not failed", st.Name, n, label[st.Name])
			}
			if want := st.RetryLimit + 1; n != want {
				c.viol("C03", "attempt-count", "iofault/missing-dir/"+tooFewMany(n, want), "step %s (retry limit %d, no working directory) was attempted %d times, expected %d", st.Name, st.RetryLimit, n, want)
			} else if retries[st.Name] != st.RetryLimit {
				c.viol("C03", "retry-count-record", fmt.Sprintf("iofault/missing-dir/recorded-%d-made-%d", retries[st.Name], n-1), "step %s made %d attempts but its record says %d retries", st.Name, n, retries[st.Name])
			}
		}
	}

	// ---- containment (C02): a step downstream of a dependency that is finally failed (without
	// continueOn.failure), canceled, or skipped (without continueOn.skipped) has not been executed
	for i := range d.Steps {
		st := &d.Steps[i]
		if len(runsBy[st.Name]) == 0 {
			continue
		}
		for _, dn := range st.Depends {
			dep := d.Step(dn)
			blocking := (label[dn] == "failed" && !dep.ContFail) || label[dn] == "canceled" || (label[dn] == "skipped" && !dep.ContSkip)
			if blocking {
				c.viol("C02", "blocked-step-executed", "iofault/"+label[dn]+"-dependency/"+tag(dn), "step %s was executed %d times although its dependency %s is finally %q (continueOn failure=%v skipped=%v; executions of the dependency %d, last one succeeded: %v)", st.Name, len(runsBy[st.Name]), dn, label[dn], dep.ContFail, dep.ContSkip, len(runsBy[dn]), lastOK(dn))
			}
		}
	}

	// ... and a step all of whose dependencies finally let it proceed has been executed (unless its own
	// files met an error, or its own precondition is unmet)
	for i := range d.Steps {
		st := &d.Steps[i]
		if len(runsBy[st.Name]) > 0 || isTouched(st.Name) || st.Precond == 2 || label[st.Name] == "skipped" {
			continue
		}
		allPermit := true
		for _, dn := range st.Depends {
			dep := d.Step(dn)
			if !(label[dn] == "finished" || (label[dn] == "failed" && dep.ContFail) || (label[dn] == "skipped" && dep.ContSkip)) {
				allPermit = false
			}
		}
		if allPermit {
			c.viol("C02", "runnable-not-executed", "iofault/"+label[st.Name], "every dependency of step %s finally lets it proceed and none of its own files met an error, but it was never executed (reported %q)", st.Name, label[st.Name])
		}
	}

	// ---- attempts (C03)
	allDone, anyFailed := true, false
	for i := range d.Steps {
		s := &d.Steps[i]
		rs := runsBy[s.Name]
		lbl := label[s.Name]
		limit := s.RetryLimit
		if limit < 0 {
			limit = 0
		}
		real := 0
		for _, r := range rs {
			if !r.Partial {
				real++
			}
		}
		if len(rs) > 1+limit {
			c.viol("C03", "attempt-count", "iofault/too-many/"+tag(s.Name), "step %s was executed %d times, its retry limit is %d", s.Name, len(rs), limit)
		}
		for j := 1; j < len(rs); j++ {
			if rs[j-1].EndSeq == 0 || rs[j-1].EndSeq > rs[j].StartSeq {
				c.viol("C03", "double-launch", "iofault/overlap", "step %s: attempt %d started (#%d) while attempt %d was still running", s.Name, j, rs[j].StartSeq, j-1)
			}
		}
		if retries[s.Name] > limit {
			c.viol("C03", "retry-count-record", "iofault/over-limit", "step %s: recorded retry count %d, limit %d", s.Name, retries[s.Name], limit)
		}
		switch lbl {
		case "finished":
			if !lastOK(s.Name) {
				why := "last-execution-failed"
				if real == 0 {
					why = "command-never-executed"
				}
				c.viol("C02", "wrong-label", "iofault/finished-without-success/"+why+"/"+tag(s.Name), "step %s is reported finished, but its command was executed %d times (processes %d) and the last execution did not succeed: its own outcome does not dictate that state", s.Name, real, len(rs))
				c.viol("C03", "finished-without-success", "iofault/"+why+"/"+tag(s.Name), "step %s is reported finished, but its command was executed %d times (processes %d) and the last execution did not succeed", s.Name, real, len(rs))
				c.viol("C04", "finished-without-success", "iofault/"+why+"/"+tag(s.Name), "step %s is reported finished, but its command was executed %d times (processes %d) and the last execution did not succeed", s.Name, real, len(rs))
			}
		case "skipped":
			if len(rs) > 0 {
				c.viol("C03", "skipped-step-executed", "iofault", "step %s is reported skipped but was executed %d times", s.Name, len(rs))
			}
		case "failed":
			anyFailed = true
			allDone = false
			if lastOK(s.Name) && !isTouched(s.Name) {
				c.viol("C04", "failed-without-cause", "iofault/step-without-fault", "step %s is reported failed although its last execution succeeded and none of its files met an error", s.Name)
			}
			if len(rs) == 0 && !isTouched(s.Name) {
				c.viol("C04", "failed-without-cause", "iofault/never-executed", "step %s is reported failed although it was never executed and none of its files met an error", s.Name)
			}
		default: // canceled (upstream), none, running
			allDone = false
			if lbl == "running" || lbl == "not started" && len(rs) > 0 {
				c.viol("C04", "non-terminal-label", "iofault/"+lbl, "run ended but step %s is reported %q", s.Name, lbl)
			}
		}
	}

	// ---- outcome and handlers (C04)
	reported := c.final.Status.String()
	switch {
	case allDone && reported != "finished":
		c.viol("C04", "wrong-outcome", "iofault/finished-as-"+reported, "every step is finished or skipped but the run is reported %q (files with faults: %v)", reported, sortedKeysBool(touched))
	case anyFailed && reported != "failed":
		c.viol("C04", "wrong-outcome", "iofault/failed-as-"+reported, "a step is reported failed but the run is reported %q", reported)
	case !allDone && !anyFailed && reported == "finished":
		c.viol("C04", "wrong-outcome", "iofault/incomplete-as-finished", "not every step is finished or skipped but the run is reported finished")
	}
	if reported == "finished" && c.ar.proc.ExitCode != 0 {
		c.viol("C04", "exit-code", "iofault/nonzero-on-success", "run reported finished but the process exited %d (%v)", c.ar.proc.ExitCode, c.ar.runErr)
	}
	if reported == "failed" && c.ar.proc.ExitCode == 0 {
		c.viol("C04", "exit-code", "iofault/zero-on-failure", "run reported failed but the process exited 0")
	}
	hmap := map[string]string{"finished": "success", "failed": "failure", "canceled": "cancel"}
	var outcomeEnd uint64
	for _, k := range []string{"success", "failure", "cancel"} {
		rs := runsBy["on_"+k]
		_, configured := d.Handlers[k]
		switch {
		case len(rs) > 1:
			c.viol("C04", "handler-count", fmt.Sprintf("iofault/%s-ran-%d", k, len(rs)), "handler %s ran %d times", k, len(rs))
		case len(rs) == 1 && (hmap[reported] != k || !configured):
			c.viol("C04", "handler-unexpected", "iofault/"+k+"-on-"+reported, "handler %s ran for outcome %q (configured=%v)", k, reported, configured)
		case len(rs) == 0 && hmap[reported] == k && configured && !isTouched("on_"+k):
			c.viol("C04", "handler-count", "iofault/"+k+"-ran-0", "the handler matching outcome %q is configured, none of its files met an error, but it did not run", reported)
		}
		for _, r := range rs {
			if r.StartSeq < lastStepEnd {
				c.viol("C04", "handler-before-last-step", "iofault/"+k, "handler %s started (#%d) before the last step ended (#%d)", k, r.StartSeq, lastStepEnd)
			}
			if r.EndSeq > outcomeEnd {
				outcomeEnd = r.EndSeq
			}
		}
	}
	ex := runsBy["on_exit"]
	if _, configured := d.Handlers["exit"]; configured {
		if len(ex) > 1 || (len(ex) == 0 && !isTouched("on_exit")) {
			c.viol("C04", "handler-count", fmt.Sprintf("iofault/exit-ran-%d", len(ex)), "onExit should run exactly once but ran %d times", len(ex))
		}
		for _, r := range ex {
			if r.StartSeq < lastStepEnd || r.StartSeq < outcomeEnd {
				c.viol("C04", "exit-handler-not-last", "iofault", "onExit started (#%d) before the last step (#%d) or the outcome handler (#%d) had ended", r.StartSeq, lastStepEnd, outcomeEnd)
			}
		}
	} else if len(ex) > 0 {
		c.viol("C04", "handler-unexpected", "iofault/exit-unconfigured", "onExit ran although it is not configured")
	}
}

func isHandlerStep(n string) bool { return strings.HasPrefix(n, "on_") }

func sortedKeysBool(m map[string]bool) []string {
	var ks []string
	for k := range m {
		ks = append(ks, k)
	}
	sort.Strings(ks)
	return ks
}

func tooFewMany(got, want int) string {
	if got < want {
		return "too-few"
	}
	return "too-many"
}
