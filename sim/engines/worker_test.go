package engines

import (
	"encoding/json"
	"fmt"
	"hash/fnv"
	"os"
	"runtime"
	"sort"
	"strconv"
	"strings"
	"testing"
	"time"

	"github.com/ErdemOzgen/blackdagger/internal/verifsim/simrt"
)

// ViolationRecord is a failing run, replayable from (seed, variant, tape).
type ViolationRecord struct {
	Prop     string     `json:"prop"`
	Sig      string     `json:"sig"`
	Msg      string     `json:"msg"`
	Seed     uint64     `json:"seed"`
	RunIndex int        `json:"run_index"`
	Worker   int        `json:"worker"`
	Variant  string     `json:"variant"`
	Thorough bool       `json:"thorough"`
	Tape     [][]uint32 `json:"tape"`
	Hash     uint64     `json:"trace_hash"`
	Sample   any        `json:"sample,omitempty"`
	Trace    []string   `json:"trace,omitempty"`
	Events   []string   `json:"events,omitempty"`
	Shrunk   *ShrinkInfo `json:"minimised,omitempty"`
	AllSigs  []string   `json:"all_sigs,omitempty"`
}

type ShrinkInfo struct {
	FromDraws int `json:"from_draws"`
	ToDraws   int `json:"to_draws"`
	FromNonZero int `json:"from_nonzero"`
	ToNonZero int `json:"to_nonzero"`
	Tries     int `json:"tries"`
}

type WorkerResult struct {
	Prop         string            `json:"prop"`
	Worker       int               `json:"worker"`
	BaseSeed     uint64            `json:"base_seed"`
	Runs         int               `json:"runs"`
	Scenarios    int               `json:"scenarios"`
	NonTrivial   int               `json:"nontrivial"`
	Inconclusive map[string]int    `json:"inconclusive,omitempty"`
	Infra        []string          `json:"infra,omitempty"`
	SchedSigs    []uint64          `json:"sched_sigs,omitempty"`
	Steps        int64             `json:"steps"`
	Ops          int64             `json:"ops"`
	Procs        int64             `json:"procs"`
	FakeNs       int64             `json:"fake_ns"`
	Faults       map[string]int    `json:"faults"`
	Probes       map[string]int    `json:"probes"`
	Variants     map[string]int    `json:"variants"`
	Violations   []ViolationRecord `json:"violations,omitempty"`
	ViolCounts   map[string]int    `json:"viol_counts,omitempty"`
	Samples      []any             `json:"samples,omitempty"`
	DetChecked   int               `json:"det_checked"`
	DetMismatch  []string          `json:"det_mismatch,omitempty"`
	WallS        float64           `json:"wall_s"`
	FirstSeed    uint64            `json:"first_seed"`
	LastSeed     uint64            `json:"last_seed"`
}

func envInt(name string, def int) int {
	if v := os.Getenv(name); v != "" {
		if n, err := strconv.Atoi(v); err == nil {
			return n
		}
	}
	return def
}

func runSeed(base uint64, prop string, worker, i int) uint64 {
	h := fnv.New64a()
	fmt.Fprintf(h, "%d|%s|%d|%d", base, prop, worker, i)
	return h.Sum64()
}

func tapeToLists(tp *simrt.Tape) [][]uint32 {
	snap := tp.Snapshot()
	out := make([][]uint32, len(snap))
	for i := range snap {
		out[i] = snap[i]
		if out[i] == nil {
			out[i] = []uint32{}
		}
	}
	return out
}

func listsToTape(seed uint64, lists [][]uint32) *simrt.Tape {
	var rec [simrt.NStreams][]uint32
	for i := 0; i < simrt.NStreams; i++ {
		if i < len(lists) && lists[i] != nil {
			rec[i] = lists[i]
		} else {
			rec[i] = []uint32{}
		}
	}
	return simrt.ReplayTape(seed, rec)
}

func writeJSON(path string, v any) {
	b, err := json.Marshal(v)
	if err != nil {
		fmt.Fprintln(os.Stderr, "worker: marshal:", err)
		os.Exit(2)
	}
	if err := os.WriteFile(path, b, 0o644); err != nil {
		fmt.Fprintln(os.Stderr, "worker: write:", err)
		os.Exit(2)
	}
}

// watchdog exits the process with status 2 if the simulation makes no
// progress for a while (a goroutine blocked in a real primitive).
func watchdog() {
	go func() {
		last := simrt.Progress.Load()
		stuck := 0
		for {
			time.Sleep(5 * time.Second)
			cur := simrt.Progress.Load()
			if cur == last {
				stuck++
			} else {
				stuck = 0
			}
			last = cur
			if stuck >= 12 {
				buf := make([]byte, 1<<20)
				n := runtime.Stack(buf, true)
				fmt.Fprintf(os.Stderr, "worker watchdog: no scheduler progress for 60 s wall\n%s\n", buf[:n])
				os.Exit(2)
			}
		}
	}()
}

func TestWorker(t *testing.T) {
	prop := os.Getenv("VERIF_PROP")
	if prop == "" {
		t.Skip("VERIF_PROP not set")
	}
	watchdog()
	// config.Load() reads these through viper from the real process environment
	for k, v := range map[string]string{"BLACKDAGGER_DAGS_DIR": dagsDir, "BLACKDAGGER_DATA_DIR": dataDir, "BLACKDAGGER_LOG_DIR": logsDir,
		"BLACKDAGGER_SUSPEND_FLAGS_DIR": flagDir, "BLACKDAGGER_ADMIN_LOG_DIR": logsDir + "/admin", "BLACKDAGGER_BASE_CONFIG": "/sim/base.yaml",
		"BLACKDAGGER_EXECUTABLE": cliPath, "BLACKDAGGER_WORK_DIR": workDir, "BLACKDAGGER_LATEST_STATUS": "true"} {
		os.Setenv(k, v)
	}
	pe, ok := PropEngines[prop]
	if !ok {
		fmt.Fprintln(os.Stderr, "worker: unknown property", prop)
		os.Exit(2)
	}
	eng := registry[pe.Engine]
	outPath := os.Getenv("VERIF_OUT")
	thorough := os.Getenv("VERIF_TIER") == "thorough"

	if os.Getenv("VERIF_SELFTEST") == "cron" {
		if err := cronSelfTest(envInt("VERIF_SELFTEST_N", 20000)); err != nil {
			fmt.Println("SELFTEST cron FAIL:", err)
			os.Exit(1)
		}
		fmt.Println("SELFTEST cron ok")
		return
	}
	if hs := os.Getenv("VERIF_HASHES"); hs != "" {
		// determinism self-test: print (run index, variant, seed, trace hash) for the first N runs of this worker slot
		n, _ := strconv.Atoi(hs)
		base := uint64(envInt("VERIF_SEED", 1))
		worker := envInt("VERIF_WORKER", 0)
		for i := 0; i < n; i++ {
			seed := runSeed(base, prop, worker, i)
			variant := pe.Variants[i%len(pe.Variants)]
			o := eng(t, simrt.NewTape(seed), RunOpts{Prop: prop, Variant: variant, Thorough: thorough})
			fmt.Printf("DET %s %d %s %d %x %d %v\n", prop, i, variant, seed, o.TraceHash, o.Steps, len(o.Violations))
		}
		return
	}
	if ds := os.Getenv("VERIF_DIFF_SEED"); ds != "" {
		// determinism debugging: run one seed twice in this process and show where the traces part
		seed, _ := strconv.ParseUint(ds, 10, 64)
		variant := os.Getenv("VERIF_VARIANT")
		n := envInt("VERIF_DIFF_RUNS", 2)
		var traces [][]string
		for i := 0; i < n; i++ {
			o := eng(t, simrt.NewTape(seed), RunOpts{Prop: prop, Variant: variant, Thorough: thorough, Trace: true})
			traces = append(traces, append(append([]string{}, o.Trace...), fmt.Sprintf("HASH %x", o.TraceHash)))
		}
		for i := 1; i < n; i++ {
			a, b := traces[0], traces[i]
			for j := 0; j < len(a) && j < len(b); j++ {
				if a[j] != b[j] {
					fmt.Printf("run 0 and run %d part at line %d\n", i, j)
					for k := max(0, j-12); k < j; k++ {
						fmt.Println("   ", a[k])
					}
					fmt.Println(" A>", a[j])
					fmt.Println(" B>", b[j])
					for k := j + 1; k < min(len(a), j+6); k++ {
						fmt.Println(" A ", a[k])
					}
					for k := j + 1; k < min(len(b), j+6); k++ {
						fmt.Println(" B ", b[k])
					}
					break
				}
			}
		}
		fmt.Println("lens", len(traces[0]), len(traces[n-1]))
		return
	}
	if rp := os.Getenv("VERIF_REPLAY"); rp != "" {
		replayMain(t, eng, prop, rp, outPath, os.Getenv("VERIF_SHRINK") != "")
		return
	}

	base := uint64(envInt("VERIF_SEED", 1))
	worker := envInt("VERIF_WORKER", 0)
	budget := time.Duration(envInt("VERIF_BUDGET_S", 20)) * time.Second
	maxRuns := envInt("VERIF_MAX_RUNS", 1<<30)
	res := &WorkerResult{Prop: prop, Worker: worker, BaseSeed: base, Faults: map[string]int{}, Probes: map[string]int{}, Variants: map[string]int{}, ViolCounts: map[string]int{}, Inconclusive: map[string]int{}}
	sigs := map[uint64]struct{}{}
	start := time.Now()
	for i := 0; i < maxRuns; i++ {
		if time.Since(start) > budget && i >= 3 {
			break
		}
		seed := runSeed(base, prop, worker, i)
		if i == 0 {
			res.FirstSeed = seed
		}
		res.LastSeed = seed
		variant := pe.Variants[i%len(pe.Variants)]
		tp := simrt.NewTape(seed)
		o := eng(t, tp, RunOpts{Prop: prop, Variant: variant, Thorough: thorough, Trace: i < 2 && worker == 0})
		if o.Evals > 1 {
			res.Runs += o.Evals
			res.Scenarios++
		} else {
			res.Runs++
			res.Scenarios++
		}
		res.Variants[variant]++
		res.Steps += int64(o.Steps)
		res.Ops += int64(o.Ops)
		res.Procs += int64(o.Procs)
		res.FakeNs += int64(o.FakeTime)
		for k, v := range o.Faults {
			res.Faults[k] += v
		}
		for k, v := range o.Probes {
			res.Probes[k] += v
		}
		if o.Infra != "" {
			if len(res.Infra) < 5 {
				res.Infra = append(res.Infra, fmt.Sprintf("seed=%d variant=%s: %s", seed, variant, o.Infra))
			}
			continue
		}
		if o.Inconclusive != "" {
			res.Inconclusive[o.Inconclusive]++
		}
		if o.NonTrivial {
			res.NonTrivial++
			if len(sigs) < 400_000 {
				sigs[o.SchedSig] = struct{}{}
			}
		}
		if i < 2 && worker == 0 {
			res.Samples = append(res.Samples, map[string]any{"seed": seed, "variant": variant, "scenario": o.Sample, "schedule_head": head(o.Trace, 40), "events_head": head(o.Events, 40), "steps": o.Steps, "fake_time": o.FakeTime.String()})
		}
		// determinism spot check on the first runs of every worker
		if i < 3 {
			tp2 := simrt.NewTape(seed)
			o2 := eng(t, tp2, RunOpts{Prop: prop, Variant: variant, Thorough: thorough, Trace: i < 2 && worker == 0})
			res.DetChecked++
			if o2.TraceHash != o.TraceHash {
				res.DetMismatch = append(res.DetMismatch, fmt.Sprintf("seed=%d variant=%s hash %x vs %x", seed, variant, o.TraceHash, o2.TraceHash))
			}
		}
		if len(o.Violations) > 0 {
			seen := map[string]bool{}
			var all []string
			for _, v := range o.Violations {
				if !seen[v.Sig()] {
					seen[v.Sig()] = true
					all = append(all, v.Sig())
				}
			}
			sort.Strings(all)
			seen = map[string]bool{}
			for _, v := range o.Violations {
				if seen[v.Sig()] {
					continue
				}
				seen[v.Sig()] = true
				res.ViolCounts[v.Sig()]++
				if res.ViolCounts[v.Sig()] <= 2 {
					res.Violations = append(res.Violations, ViolationRecord{Prop: v.Prop, Sig: v.Sig(), Msg: v.Msg, Seed: seed, RunIndex: i, Worker: worker, Variant: variant, Thorough: thorough, Tape: tapeToLists(tp), Hash: o.TraceHash, Sample: o.Sample, AllSigs: all})
				}
			}
		}
	}
	for s := range sigs {
		res.SchedSigs = append(res.SchedSigs, s)
	}
	sort.Slice(res.SchedSigs, func(i, j int) bool { return res.SchedSigs[i] < res.SchedSigs[j] })
	res.WallS = time.Since(start).Seconds()
	if outPath != "" {
		writeJSON(outPath, res)
	} else {
		b, _ := json.MarshalIndent(res, "", " ")
		fmt.Println(string(b))
	}
}

func head(s []string, n int) []string {
	if len(s) > n {
		return s[:n]
	}
	return s
}

// ---------------------------------------------------------------------------
// replay and shrinking

type ReplayFile struct {
	Property string          `json:"property"`
	Engine   string          `json:"engine"`
	Tier     string          `json:"tier"`
	TreeHash string          `json:"tree_hash"`
	Record   ViolationRecord `json:"record"`
}

type ReplayResult struct {
	Reproduced bool             `json:"reproduced"`
	Sigs       []string         `json:"sigs"`
	Hash       uint64           `json:"trace_hash"`
	Record     *ViolationRecord `json:"record,omitempty"`
	Infra      string           `json:"infra,omitempty"`
}

func sigsOf(o *Outcome) []string {
	seen := map[string]bool{}
	var out []string
	for _, v := range o.Violations {
		if !seen[v.Sig()] {
			seen[v.Sig()] = true
			out = append(out, v.Sig())
		}
	}
	sort.Strings(out)
	return out
}

func hasSig(o *Outcome, sig string) (Violation, bool) {
	for _, v := range o.Violations {
		if v.Sig() == sig {
			return v, true
		}
	}
	return Violation{}, false
}

func replayMain(t *testing.T, eng Engine, prop, path, outPath string, shrink bool) {
	b, err := os.ReadFile(path)
	if err != nil {
		fmt.Fprintln(os.Stderr, "worker: replay file:", err)
		os.Exit(2)
	}
	var rf ReplayFile
	if err := json.Unmarshal(b, &rf); err != nil {
		fmt.Fprintln(os.Stderr, "worker: replay file:", err)
		os.Exit(2)
	}
	rec := rf.Record
	run := func(lists [][]uint32, trace bool) *Outcome {
		return eng(t, listsToTape(rec.Seed, lists), RunOpts{Prop: prop, Variant: rec.Variant, Thorough: rec.Thorough, Trace: trace})
	}
	o := run(rec.Tape, true)
	rr := &ReplayResult{Sigs: sigsOf(o), Hash: o.TraceHash, Infra: o.Infra}
	v, ok := hasSig(o, rec.Sig)
	rr.Reproduced = ok
	if ok {
		rec.Msg = v.Msg
		rec.Trace = o.Trace
		rec.Events = o.Events
		rec.Hash = o.TraceHash
		rec.Sample = o.Sample
		if shrink {
			lists, info := shrinkTape(run, rec.Tape, rec.Sig, time.Duration(envInt("VERIF_SHRINK_S", 45))*time.Second)
			rec.Tape = lists
			rec.Shrunk = info
			o = run(lists, true)
			if v, ok := hasSig(o, rec.Sig); ok {
				rec.Msg = v.Msg
				rec.Trace = o.Trace
				rec.Events = o.Events
				rec.Hash = o.TraceHash
				rec.Sample = o.Sample
				rr.Hash = o.TraceHash
			} else {
				rr.Infra = "shrunk tape does not reproduce (nondeterminism)"
			}
		}
		rr.Record = &rec
	}
	if outPath != "" {
		writeJSON(outPath, rr)
	}
	fmt.Printf("REPLAY reproduced=%v sig=%s sigs=%s hash=%x\n", rr.Reproduced, rec.Sig, strings.Join(rr.Sigs, ","), rr.Hash)
	if ok {
		fmt.Printf("VIOLATION-DETAIL %s\n", rec.Msg)
	}
}

func countDraws(l [][]uint32) (n, nz int) {
	for _, s := range l {
		n += len(s)
		for _, v := range s {
			if v != 0 {
				nz++
			}
		}
	}
	return
}

func cloneLists(l [][]uint32) [][]uint32 {
	out := make([][]uint32, len(l))
	for i := range l {
		out[i] = append([]uint32{}, l[i]...)
	}
	return out
}

// shrinkTape minimises the tape by delta debugging while the violation
// signature persists: truncate streams, zero blocks (zero = boring choice:
// no pre-emption, no fault, smallest size), then lower single values.
func shrinkTape(run func([][]uint32, bool) *Outcome, lists [][]uint32, sig string, budget time.Duration) ([][]uint32, *ShrinkInfo) {
	start := time.Now()
	info := &ShrinkInfo{}
	info.FromDraws, info.FromNonZero = countDraws(lists)
	cur := cloneLists(lists)
	try := func(c [][]uint32) bool {
		if time.Since(start) > budget {
			return false
		}
		info.Tries++
		o := run(c, false)
		if o.Infra != "" {
			return false
		}
		_, ok := hasSig(o, sig)
		return ok
	}
	// order: faults, latencies, schedule, generation
	order := []int{int(simrt.SFault), int(simrt.SLat), int(simrt.SSched), int(simrt.SGen)}
	for pass := 0; pass < 3 && time.Since(start) < budget; pass++ {
		progress := false
		for _, s := range order {
			if s >= len(cur) {
				continue
			}
			// 1. zero the whole stream / truncate
			if nzOf(cur[s]) > 0 {
				c := cloneLists(cur)
				c[s] = []uint32{}
				if try(c) {
					cur = c
					progress = true
					continue
				}
			}
			// 2. truncate suffixes
			for n := len(cur[s]) / 2; n >= 1 && time.Since(start) < budget; n /= 2 {
				if len(cur[s]) <= n {
					continue
				}
				c := cloneLists(cur)
				c[s] = c[s][:len(c[s])-n]
				for try(c) {
					cur = c
					progress = true
					if len(cur[s]) <= n {
						break
					}
					c = cloneLists(cur)
					c[s] = c[s][:len(c[s])-n]
				}
			}
			// 3. zero blocks
			for blk := len(cur[s]) / 2; blk >= 1 && time.Since(start) < budget; blk /= 2 {
				for off := 0; off < len(cur[s]) && time.Since(start) < budget; off += blk {
					end := off + blk
					if end > len(cur[s]) {
						end = len(cur[s])
					}
					if nzOf(cur[s][off:end]) == 0 {
						continue
					}
					c := cloneLists(cur)
					for i := off; i < end; i++ {
						c[s][i] = 0
					}
					if try(c) {
						cur = c
						progress = true
					}
				}
			}
			// 4. lower single values (generation stream: smaller scenarios)
			if s == int(simrt.SGen) {
				for i := 0; i < len(cur[s]) && time.Since(start) < budget; i++ {
					for cur[s][i] > 0 {
						c := cloneLists(cur)
						c[s][i] = cur[s][i] / 2
						if !try(c) {
							break
						}
						cur = c
						progress = true
					}
				}
			}
		}
		if !progress {
			break
		}
	}
	// strip trailing zeros (a strict replay returns 0 past the end anyway)
	for s := range cur {
		for len(cur[s]) > 0 && cur[s][len(cur[s])-1] == 0 {
			cur[s] = cur[s][:len(cur[s])-1]
		}
	}
	info.ToDraws, info.ToNonZero = countDraws(cur)
	return cur, info
}

func nzOf(s []uint32) int {
	n := 0
	for _, v := range s {
		if v != 0 {
			n++
		}
	}
	return n
}
