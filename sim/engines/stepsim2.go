package engines

import (
	"bytes"
	"context"
	"fmt"
	"io"
	"os"
	"sort"
	"strings"
	"time"

	"github.com/ErdemOzgen/blackdagger/internal/dag"
	"github.com/ErdemOzgen/blackdagger/internal/dag/executor"
	"github.com/ErdemOzgen/blackdagger/internal/persistence/model"
	"github.com/ErdemOzgen/blackdagger/internal/verifsim/simrt"
)

// curTruth is the ground-truth recorder of the world currently running in this
// worker process (one world at a time); the in-process executor needs it.
var curTruth *Truth

// ---------------------------------------------------------------------------
// direct-write executor: behaves like blackdagger's http/jq/mail executors,
// which call Write on the writers they were given instead of handing them to
// os/exec.

type directExec struct {
	step   dag.Step
	stdout io.Writer
	stderr io.Writer
}

func (e *directExec) SetStdout(w io.Writer) { e.stdout = w }
func (e *directExec) SetStderr(w io.Writer) { e.stderr = w }
func (e *directExec) Kill(os.Signal) error  { return nil }

func (e *directExec) Run() error {
	tr := curTruth
	name := "?"
	if len(e.step.Args) > 0 {
		name = e.step.Args[0]
	}
	w := simrt.Current()
	key := "direct/" + name
	simrt.Big.Lock()
	attempt := tr.counter[key]
	tr.counter[key]++
	run := &StepRun{Name: name, Attempt: attempt, Pid: -len(tr.Runs) - 1, Argv: append([]string{"simdirect"}, e.step.Args...)}
	tr.Runs = append(tr.Runs, run)
	simrt.Big.Unlock()
	run.StartAt = w.Now()
	run.StartSeq = w.Emit("step_start", name, fmt.Sprintf("attempt=%d direct", attempt), 0, nil)
	spec := tr.Behaviour(nil, name)
	var err error
	if spec != nil {
		for _, ch := range outputPlan(spec, attempt) {
			dst := e.stdout
			if ch.stream == 'e' {
				dst = e.stderr
			}
			if dst == nil {
				continue
			}
			if _, werr := dst.Write(ch.data); werr != nil && err == nil {
				err = werr
			}
		}
		if spec.FailFirst < 0 || attempt < spec.FailFirst {
			run.Code = 1
			if err == nil {
				err = fmt.Errorf("scripted failure of %s attempt %d", name, attempt)
			}
		}
	}
	run.EndAt = w.Now()
	run.EndSeq = w.Emit("step_end", name, fmt.Sprintf("attempt=%d direct", attempt), 0, nil)
	return err
}

func init() {
	executor.Register("simdirect", func(ctx context.Context, step dag.Step) (executor.Executor, error) {
		return &directExec{step: step}, nil
	})
}

type outChunk struct {
	stream byte
	data   []byte
}

// outputPlan is the exact sequence of writes a scripted step performs.
func outputPlan(spec *StepSpec, attempt int) []outChunk {
	if spec.OutText != "" {
		return []outChunk{{'o', []byte(spec.OutText)}}
	}
	out := pattern(spec.Name, attempt, 'o', spec.OutBytes)
	errb := pattern(spec.Name, attempt, 'e', spec.ErrBytes)
	chunk := spec.Chunk
	if chunk <= 0 {
		chunk = 1 << 20
	}
	var plan []outChunk
	for len(out) > 0 || len(errb) > 0 {
		if len(out) > 0 {
			n := min(chunk, len(out))
			plan = append(plan, outChunk{'o', out[:n]})
			out = out[n:]
			if !spec.Interleave && len(out) > 0 {
				continue
			}
		}
		if len(errb) > 0 {
			n := min(chunk, len(errb))
			plan = append(plan, outChunk{'e', errb[:n]})
			errb = errb[n:]
		}
	}
	return plan
}

func planBytes(plan []outChunk, streams string) []byte {
	var b []byte
	for _, c := range plan {
		if strings.IndexByte(streams, c.stream) >= 0 {
			b = append(b, c.data...)
		}
	}
	return b
}

// ---------------------------------------------------------------------------
// C12 scenario

var sizeTable = []int{0, 1, 100, 4095, 4096, 4097, 8192, 32768, 65535, 65536, 65537, 200000}

func genLogDag(tp *simrt.Tape, thorough bool) *DagSpec {
	d := &DagSpec{File: "wf"}
	n := 1 + tp.Draw(simrt.SGen, 3)
	for i := 0; i < n; i++ {
		s := StepSpec{Name: fmt.Sprintf("s%d", i), RetryLimit: -1, DurMs: []int{0}}
		if i > 0 && chance(tp, 1, 2) {
			s.Depends = []string{fmt.Sprintf("s%d", i-1)}
			s.ContFail = true
		}
		if chance(tp, 1, 2) {
			s.Stdout = fmt.Sprintf("/sim/work/%s.out", s.Name)
		}
		if chance(tp, 1, 3) {
			s.Stderr = fmt.Sprintf("/sim/work/%s.err", s.Name)
		}
		if chance(tp, 1, 3) {
			s.Output = "OUT_" + strings.ToUpper(s.Name)
		}
		if chance(tp, 1, 2) {
			s.RetryLimit = 1 + tp.Draw(simrt.SGen, 2)
			s.FailFirst = tp.Draw(simrt.SGen, s.RetryLimit+2) // up to limit+1 => fails for good
			s.RetryInterval = pick(tp, 0, 0, 1)
		} else if chance(tp, 1, 4) {
			s.FailFirst = -1
		}
		sizes := sizeTable
		if thorough {
			sizes = append(append([]int{}, sizeTable...), 1<<20, 1+tp.Draw(simrt.SGen, 300000))
		}
		switch tp.Draw(simrt.SGen, 4) {
		case 0:
			s.OutBytes = sizes[tp.Draw(simrt.SGen, len(sizes))]
		case 1:
			s.ErrBytes = sizes[tp.Draw(simrt.SGen, len(sizes))]
		default:
			s.OutBytes = sizes[tp.Draw(simrt.SGen, len(sizes))]
			s.ErrBytes = sizes[tp.Draw(simrt.SGen, len(sizes))]
			s.Interleave = chance(tp, 1, 2)
		}
		if s.Output != "" {
			// captures beyond the pipe capacity are C11's subject; keep them out of this property
			// (without a stderr file, stderr shares the stdout writer and therefore the capture pipe)
			if s.OutBytes > 30000 {
				s.OutBytes = 30000
			}
			if s.Stderr == "" && s.ErrBytes > 30000 {
				s.ErrBytes = 30000
			}
		}
		s.Chunk = pick(tp, 1, 7, 512, 4096, 4097, 65536, 1<<20)
		// keep the number of writes per attempt bounded (every write is a simulated syscall with latency)
		for (s.OutBytes+s.ErrBytes)/s.Chunk > 400 {
			s.Chunk *= 8
		}
		s.Direct = chance(tp, 1, 3)
		if s.RetryLimit < 0 && s.Stderr == "" && !s.Direct && chance(tp, 1, 8) {
			// the command exits at once and leaves a background child that holds the step's output open for
			// several seconds and prints a last line before it ends: that line is output of the step too
			s.BgMs, s.BgLate = pick(tp, 2500, 6000, 9000), true
			s.FailFirst = 0
		}
		d.Steps = append(d.Steps, s)
	}
	return d
}

func cfgKey(s *StepSpec, attempts int) string {
	var k []string
	if attempts > 1 {
		k = append(k, "retry")
	}
	if s.Stdout != "" {
		k = append(k, "stdout")
	}
	if s.Stderr != "" {
		k = append(k, "stderr")
	}
	if s.Output != "" {
		k = append(k, "output")
	}
	if s.Direct {
		k = append(k, "direct")
	}
	if len(k) == 0 {
		return "plain"
	}
	return strings.Join(k, "+")
}

func classify(got, want []byte) string {
	switch {
	case len(got) == 0:
		return "empty"
	case len(got) < len(want) && bytes.HasPrefix(want, got):
		return "truncated"
	case len(got) < len(want):
		return "short"
	default:
		return "garbled"
	}
}

func (c *stepCheck) checkLogs(hung bool) {
	if hung {
		c.viol("C12", "no-termination", "log-variant", "run with output redirection did not end (live: %s)", c.liveSummary())
		return
	}
	if c.ar == nil || !c.ar.started || c.final == nil {
		if c.ar != nil && c.ar.loadErr != nil {
			c.out.Infra = "generated DAG rejected by loader: " + c.ar.loadErr.Error()
		}
		return
	}
	f := fsOf(c.ar.proc.W)
	finalBy := map[string]*model.Node{}
	for _, n := range c.final.Nodes {
		finalBy[n.Step.Name] = n
	}
	for i := range c.sc.Dag.Steps {
		s := &c.sc.Dag.Steps[i]
		fn := finalBy[s.Name]
		rs := c.truth.RunsOf(0, s.Name)
		if fn == nil || len(rs) == 0 {
			continue
		}
		last := rs[len(rs)-1]
		if last.EndSeq == 0 || (last.Signaled != "" && last.Signaled != "teardown") {
			// the last attempt was killed (stop) while it may still have been printing: what it managed
			// to print is not scripted exactly, nothing is demanded
			bump(c.out, "last_attempt_killed")
			continue
		}
		if c.cancelSeenSeq != 0 {
			bump(c.out, "stopped_run_checked")
		}
		plan := outputPlan(s, last.Attempt)
		wantOut := planBytes(plan, "o")
		wantErr := planBytes(plan, "e")
		wantLog := planBytes(plan, "oe")
		wantOutFile := wantLog // without a stderr: file, stderr is sent wherever stdout goes (2>&1)
		if s.Stderr != "" {
			wantLog = wantOut
			wantOutFile = wantOut
		}
		if s.BgLate {
			for _, b := range c.truth.Bg {
				if b.Name == s.Name && b.OutWrote > 0 {
					late := []byte(BgLateText(s.Name))
					wantOut = append(append([]byte{}, wantOut...), late...)
					wantLog = append(append([]byte{}, wantLog...), late...)
					wantOutFile = append(append([]byte{}, wantOutFile...), late...)
					bump(c.out, "late_output_of_background_child")
				}
			}
		}
		if len(wantLog)+len(wantErr) > 0 {
			c.out.NonTrivial = true
		}
		key := cfgKey(s, len(rs))
		bump(c.out, "cfg_"+key)
		lbl := nodeLabel(fn)
		if lbl == "running" || lbl == "not started" {
			continue
		}
		if fn.Log == "" {
			c.viol("C12", "log-path-missing", key, "step %s (%s) has no log path in its status", s.Name, lbl)
			continue
		}
		got, ok := f.GetFile(fn.Log)
		if !ok {
			c.viol("C12", "log-file-missing", key, "step %s (%s): log file %s named in the status does not exist", s.Name, lbl, fn.Log)
		} else if !bytes.HasSuffix(got, wantLog) {
			c.viol("C12", "log-incomplete", classify(got, wantLog)+"/"+key, "step %s (%s, %d attempts, cfg %s): log %s holds %d bytes, the last attempt printed %d", s.Name, lbl, len(rs), key, fn.Log, len(got), len(wantLog))
		}
		if s.Stdout != "" {
			got, ok := f.GetFile(s.Stdout)
			if !ok {
				if len(wantOut) > 0 {
					c.viol("C12", "stdout-file-missing", key, "step %s: stdout file %s does not exist", s.Name, s.Stdout)
				}
			} else if !bytes.HasSuffix(got, wantOutFile) {
				c.viol("C12", "stdout-file-incomplete", classify(got, wantOutFile)+"/"+key, "step %s (%s, %d attempts, cfg %s): stdout file holds %d bytes, the last attempt wrote %d to stdout(+stderr when shared)", s.Name, lbl, len(rs), key, len(got), len(wantOutFile))
			}
		}
		if s.Stderr != "" {
			got, ok := f.GetFile(s.Stderr)
			if !ok {
				if len(wantErr) > 0 {
					c.viol("C12", "stderr-file-missing", key, "step %s: stderr file %s does not exist", s.Name, s.Stderr)
				}
			} else if !bytes.HasSuffix(got, wantErr) {
				c.viol("C12", "stderr-file-incomplete", classify(got, wantErr)+"/"+key, "step %s (%s, %d attempts, cfg %s): stderr file holds %d bytes, the last attempt wrote %d to stderr", s.Name, lbl, len(rs), key, len(got), len(wantErr))
			}
		}
	}
}

// ---------------------------------------------------------------------------
// C05

const stopSlack = 10 * time.Second

func (c *stepCheck) checkStop(hung bool) {
	d := c.sc.Dag
	if c.ar == nil || !c.ar.started {
		if c.ar != nil && c.ar.loadErr != nil {
			c.out.Infra = "generated DAG rejected by loader: " + c.ar.loadErr.Error()
		}
		return
	}
	if c.ar.proc.Signaled == "panic" {
		return // reported as a panic violation already
	}
	if c.ar.proc.Signaled != "" && c.ar.proc.Signaled != "teardown" && c.cancelSeenSeq == 0 {
		bump(c.out, "agent_killed_by_early_signal")
		return
	}
	cleanup := time.Duration(d.MaxCleanUpSec) * time.Second
	if cleanup == 0 {
		cleanup = 60 * time.Second
	}
	var agentExitAt time.Duration
	var agentExitSeq uint64
	for _, e := range c.res.Events {
		if e.Kind == "proc_exit" && int(e.N) == c.ar.proc.Pid {
			agentExitAt, agentExitSeq = e.At, e.Seq
		}
	}
	spawnSeq := map[int]uint64{}
	spawnAt := map[int]time.Duration{}
	for _, e := range c.res.Events {
		if e.Kind == "proc_spawn" {
			spawnSeq[int(e.N)] = e.Seq
			spawnAt[int(e.N)] = e.At
		}
	}
	isHandler := func(n string) bool { return strings.HasPrefix(n, "on_") }

	// ---------------- timeout variant
	if c.sc.Variant == "timeout" {
		c.out.NonTrivial = true
		deadline := time.Duration(d.TimeoutSec) * time.Second
		// the deadline counts from the start of scheduling; measure from the first spawn or agent start (lenient: agent spawn + 1s)
		var t0 time.Duration = 1 << 62
		for _, r := range c.truth.Runs {
			if r.StartAt < t0 {
				t0 = r.StartAt
			}
		}
		if t0 == 1<<62 {
			return
		}
		limit := t0 + deadline
		timedOut := false
		for _, r := range c.truth.Runs {
			if isHandler(r.Name) {
				continue
			}
			// the scheduler counts from the start of scheduling, a few milliseconds before the first spawn: a
			// step cut by the timeout ends just *before* this limit, so the signal it received is the witness
			if r.EndSeq == 0 || r.EndAt > limit || len(r.Signals) > 0 || r.Signaled != "" {
				timedOut = true
			}
		}
		if !timedOut && !hung {
			// everything ended before the deadline: nothing to check
			return
		}
		bump(c.out, "timeout_elapsed")
		for _, r := range c.truth.Runs {
			if isHandler(r.Name) {
				continue
			}
			if r.StartAt > limit+stopSlack {
				c.viol("C05", "start-after-timeout", "late-spawn", "step %s attempt %d started %v after the DAG timeout elapsed", r.Name, r.Attempt, r.StartAt-limit)
			}
			if r.EndSeq == 0 || r.EndAt > limit+cleanup+stopSlack {
				c.viol("C05", "child-survives-timeout", firstNonEmpty(d.Step(r.Name).OnTerm, "exit"), "step %s attempt %d was still running %v after the DAG timeout", r.Name, r.Attempt, cleanup+stopSlack)
			}
		}
		if hung || agentExitSeq == 0 {
			c.viol("C05", "run-not-ended-after-timeout", "hang", "the run had not ended %v after its timeout", c.res.FakeTime-limit)
			return
		}
		if agentExitAt > limit+cleanup+stopSlack+maxExitDelay(d) {
			disc := "timeout"
			// a background child whose command had already exited when the timeout elapsed: the timeout acts
			// through the command's context, which has nothing left to kill then
			for _, b := range c.truth.Bg {
				if b.StartAt < limit && (b.EndSeq == 0 || b.EndAt > limit+cleanup) {
					if cmdRun := c.truth.byPid[b.AgentPid]; cmdRun != nil && cmdRun.EndSeq != 0 && cmdRun.EndAt < limit && cmdRun.Signaled == "" && len(cmdRun.Signals) == 0 {
						disc = "timeout/background-child-of-exited-command"
					}
				}
			}
			c.viol("C05", "run-not-ended-in-bound", disc, "the run ended %v after its timeout (bound %v)", agentExitAt-limit, cleanup+stopSlack)
		}
		if c.final != nil && c.final.Status.String() != "canceled" {
			c.viol("C05", "timeout-outcome", c.final.Status.String(), "run that hit its timeout is reported %q", c.final.Status.String())
		}
		return
	}

	// ---------------- stop variant
	if c.cancelSeenSeq == 0 {
		if hung && c.stopDoneSeq != 0 {
			c.viol("C05", "stop-accepted-but-ignored", c.sc.StopVia, "the stop request was acknowledged but never took effect and the run did not end")
		} else if hung {
			c.out.Inconclusive = "stop-never-delivered"
		}
		return // the stop arrived after the end (or was never delivered)
	}
	c.out.NonTrivial = true
	t0s, t0 := c.cancelSeenSeq, c.cancelSeenAt
	var maxCoopDelay time.Duration
	anyAlive := false
	lateSpawns := map[string]int{}
	for _, r := range c.truth.Runs {
		if isHandler(r.Name) {
			continue
		}
		spec := d.Step(r.Name)
		if spec == nil {
			continue
		}
		ss := spawnSeq[r.Pid]
		// (i) nothing new is started
		if ss > t0s {
			lateSpawns[r.Name]++
			disc := "launched-after-stop" // the loop itself launched it after the stop: a policy failure
			launchedBefore := c.statusAtStop[r.Name] == "running"
			if c.statusAtStop[r.Name] == "canceled" {
				// the sample is taken when the cancel flag is first seen, which may be after the stop has
				// already relabelled the running nodes: a node without a blocking dependency can only have
				// become "canceled" that way, i.e. it was running (launched) when the stop came
				launchedBefore = true
				// (blocking = canceled, or failed without continueOn.failure; a skipped dependency makes its
				// dependents skipped, not canceled)
				for _, dn := range spec.Depends {
					l, ds := c.statusAtStop[dn], d.Step(dn)
					if l == "canceled" || (l == "failed" && (ds == nil || !ds.ContFail)) {
						launchedBefore = false
					}
				}
			}
			if launchedBefore {
				// its worker had been launched before the stop and was between its last
				// cancel check and the process start: a check-then-act race
				disc = "worker-already-launched"
				if lateSpawns[r.Name] > 1 {
					disc = "second-spawn-after-stop"
				}
			}
			if spec.Repeat {
				disc = "repeat/" + disc
				// the only cancel check that can race with the stop is the one after the
				// repeat interval; if the stop took effect while the step was still waiting
				// out that interval, a new iteration is a policy failure, not the race
				for _, prev := range c.truth.Runs {
					if prev.Name == r.Name && prev.Attempt == r.Attempt-1 && prev.EndSeq != 0 && prev.EndSeq < t0s &&
						t0 < prev.EndAt+time.Duration(spec.RepeatSec)*time.Second-10*time.Millisecond {
						disc = "repeat/relaunched-after-interval-wait"
					}
				}
			}
			if strings.HasSuffix(disc, "worker-already-launched") {
				c.racedLaunch = true
			}
			c.viol("C05", "start-after-stop", disc, "step %s attempt %d was started %v after the stop took effect (its state at that instant: %s)", r.Name, r.Attempt, spawnAt[r.Pid]-t0, c.statusAtStop[r.Name])
			bump(c.out, "spawn_after_cancel")
		}
		alive := ss <= t0s && (r.EndSeq == 0 || r.EndSeq > t0s)
		if !alive {
			continue
		}
		anyAlive = true
		bump(c.out, "child_alive_at_stop_"+firstNonEmpty(spec.OnTerm, "exit"))
		if spec.Repeat {
			// (v) the current iteration ends normally
			bump(c.out, "repeat_alive_at_stop")
			if r.Signaled != "" && r.Signaled != "teardown" && r.EndAt < t0+cleanup {
				c.viol("C05", "repeat-iteration-killed", r.Signaled, "repeating step %s was killed by %s %v after the stop instead of finishing its iteration", r.Name, r.Signaled, r.EndAt-t0)
			}
			continue
		}
		// (ii) it is sent the stop signal
		want := map[string]bool{"SIGTERM": true}
		if spec.SignalOnStop != "" {
			want[spec.SignalOnStop] = true
		}
		got := false
		var firstSig time.Duration
		for _, sg := range r.Signals {
			if sg.Seq >= t0s-2 && (want[sg.Sig] || sg.Sig == "SIGKILL") {
				if !got {
					firstSig = sg.At
				}
				got = true
			}
		}
		killed := r.Signaled == "killed"
		// a seeded stall (<= 7 s) may have been in flight in the signalling path when the stop took
		// effect; only a child that stayed alive clearly longer than that counts as never signalled
		endedSoon := r.EndSeq != 0 && r.EndAt-t0 <= 8*time.Second
		if !got && !killed && !endedSoon {
			disc := "running-child"
			if spawnAt[r.Pid] >= t0-5*time.Millisecond || t0-r.StartAt < 5*time.Millisecond {
				disc = "just-spawned-child"
			}
			c.viol("C05", "signal-not-delivered", disc, "step %s attempt %d (pid %d) was running when the stop took effect but never received %v", r.Name, r.Attempt, r.Pid, keys(want))
			continue
		}
		_ = firstSig
		if spec.SignalOnStop != "" && c.sc.StopVia == "socket" && got {
			sawCustom := false
			for _, sg := range r.Signals {
				if sg.Sig == spec.SignalOnStop {
					sawCustom = true
				}
			}
			if !sawCustom {
				c.viol("C05", "signal-on-stop-ignored", spec.SignalOnStop, "step %s has signalOnStop=%s but received %s", r.Name, spec.SignalOnStop, fmt.Sprint(r.Signals, " states at the stop: ", c.statusAtStop))
			} else {
				bump(c.out, "signal_on_stop_delivered")
			}
		}
		switch spec.OnTerm {
		case "delay":
			if dly := time.Duration(spec.ExitDelayMs) * time.Millisecond; dly > maxCoopDelay {
				maxCoopDelay = dly
			}
		case "ignore":
			// (iii) force-kill after MaxCleanUpTime
			bump(c.out, "ignoring_child_at_stop")
			sawKill := false
			for _, sg := range r.Signals {
				if sg.Sig == "SIGKILL" && sg.At <= t0+cleanup+stopSlack {
					sawKill = true
				}
			}
			natural := r.EndSeq != 0 && r.EndAt <= t0+cleanup+stopSlack
			if !sawKill && !natural {
				c.viol("C05", "no-force-kill", "ignoring-child", "step %s ignores the stop signal but was not force-killed within maxCleanUpTime (%v) + %v; it ended at +%v", r.Name, cleanup, stopSlack, endRel(r, t0))
			}
		}
	}
	if anyAlive {
		bump(c.out, "stop_with_live_children")
	}
	// (iv) the run ends, as canceled, with onCancel then onExit, within the bound
	bound := t0 + cleanup + stopSlack + maxCoopDelay + maxRepeatIter(d)
	if hung || agentExitSeq == 0 {
		c.viol("C05", "run-not-ended", hangDisc(c, t0s), "the run had not ended %v after the stop took effect (maxCleanUpTime %v); live: %s", c.res.FakeTime-t0, cleanup, c.liveSummary())
		return
	}
	if agentExitAt > bound {
		c.viol("C05", "run-not-ended-in-bound", hangDisc(c, t0s), "the run ended %v after the stop took effect, bound is maxCleanUpTime %v + %v slack + cooperative delays %v", agentExitAt-t0, cleanup, stopSlack, maxCoopDelay+maxRepeatIter(d))
	}
	if c.final == nil {
		c.viol("C05", "no-final-status", "missing", "stopped run left no persisted status")
		return
	}
	var lastStepEnd uint64
	for _, r := range c.truth.Runs {
		if !isHandler(r.Name) && r.EndSeq > lastStepEnd {
			lastStepEnd = r.EndSeq
		}
	}
	if t0s < lastStepEnd || anyAlive {
		if got := c.final.Status.String(); got != "canceled" {
			disc := got
			// which steps were active when the stop took effect — by what the processes say, not by the
			// labels (a worker that is descheduled between its process's exit and its status update still
			// shows "running")
			onlyRepeatActive, anyActive := true, false
			for name, st := range c.statusAtStop {
				if sp := d.Step(name); sp != nil && sp.Repeat && st == "running" {
					anyActive = true
				}
			}
			for _, r := range c.truth.Runs {
				if isHandler(r.Name) {
					continue
				}
				if sp := d.Step(r.Name); sp != nil && !sp.Repeat && spawnSeq[r.Pid] <= t0s && (r.EndSeq == 0 || r.EndSeq > t0s) {
					anyActive = true
					onlyRepeatActive = false
				}
			}
			if anyActive && onlyRepeatActive {
				disc += "/only-repeating-steps-active"
			}
			if anyActive && !onlyRepeatActive && !c.racedLaunch && got == "finished" {
				// every step that was alive at the stop ended by itself, successfully, before the stop signal
				// had been sent to it, and nothing was left to start: the scheduler then calls the run a success
				unsignalled := true
				for _, r := range c.truth.Runs {
					if !isHandler(r.Name) && (r.EndSeq == 0 || r.Code != 0 || r.Signaled != "" || len(r.Signals) > 0) {
						unsignalled = false
					}
				}
				if unsignalled {
					disc += "/all-steps-completed-before-any-signal"
				}
			}
			if !anyActive && c.racedLaunch {
				// no step process was alive at the stop: the steps that ended after it were started by
				// workers that had passed their last cancel check (start-after-stop/worker-already-launched),
				// ran unsignalled to their end, and the run then counts as complete
				disc += "/after-raced-launch"
			}
			c.viol("C05", "stopped-run-outcome", disc, "run stopped while steps were running is reported %q (step states when the stop took effect: %v)", got, c.statusAtStop)
		}
		if _, ok := d.Handlers["cancel"]; ok && c.final.Status.String() == "canceled" {
			if n := len(c.truth.RunsOf(0, "on_cancel")); n != 1 {
				c.viol("C05", "cancel-handler", fmt.Sprintf("ran-%d", n), "onCancel ran %d times for a stopped run", n)
			}
		}
		if _, ok := d.Handlers["exit"]; ok {
			if n := len(c.truth.RunsOf(0, "on_exit")); n != 1 {
				c.viol("C05", "exit-handler", fmt.Sprintf("ran-%d", n), "onExit ran %d times for a stopped run", n)
			}
		}
	}
}

func endRel(r *StepRun, t0 time.Duration) string {
	if r.EndSeq == 0 {
		return "never"
	}
	return (r.EndAt - t0).String()
}

func hangDisc(c *stepCheck, t0s uint64) string {
	// which kind of child kept the run alive
	kinds := map[string]bool{}
	for _, r := range c.truth.Runs {
		if strings.HasPrefix(r.Name, "on_") {
			continue
		}
		if r.EndSeq == 0 || r.EndSeq > t0s {
			if s := c.sc.Dag.Step(r.Name); s != nil {
				k := firstNonEmpty(s.OnTerm, "exit")
				if s.Repeat {
					k = "repeat"
				}
				kinds[k+"-child"] = true
			}
		}
	}
	if kinds["ignore-child"] {
		return "ignoring-child-involved"
	}
	if c.racedLaunch {
		// the child launched by the check-then-act race is never signalled (its node was already
		// relabelled canceled), so the run ends only when that child ends by itself
		return "after-raced-launch"
	}
	if len(kinds) == 0 {
		return "no-live-child"
	}
	return strings.Join(keys(kinds), "+")
}

func keys(m map[string]bool) []string {
	var out []string
	for k := range m {
		out = append(out, k)
	}
	sort.Strings(out)
	return out
}

func maxExitDelay(d *DagSpec) time.Duration {
	var m time.Duration
	for _, s := range d.Steps {
		if s.OnTerm == "delay" {
			if dl := time.Duration(s.ExitDelayMs) * time.Millisecond; dl > m {
				m = dl
			}
		}
	}
	return m
}

func maxRepeatIter(d *DagSpec) time.Duration {
	var m time.Duration
	for _, s := range d.Steps {
		if s.Repeat {
			for _, ms := range s.DurMs {
				if dl := time.Duration(ms) * time.Millisecond; dl > m {
					m = dl
				}
			}
		}
	}
	return m
}
