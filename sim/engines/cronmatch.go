package engines

import (
	"fmt"
	"strconv"
	"strings"
	"time"

	"github.com/ErdemOzgen/blackdagger/internal/verifsim/simrt"
)

// CronMatcher: an independent matcher for the standard 5-field cron grammar
// (minute hour day-of-month month day-of-week; lists, ranges, steps, names,
// `*` and `?`). It answers "does this expression fire in minute t?" and is the
// reference the daemon's behaviour is compared with. Day-of-month and
// day-of-week combine as in cron: if both are restricted either may match,
// otherwise both must. (Expressions in which a stepped star `*/n` meets a
// restricted other day field are not generated: implementations disagree on
// that corner.)
type cronField struct {
	set  uint64
	star bool
}

type CronExpr struct {
	Text                       string
	min, hour, dom, month, dow cronField
}

var monthNames = map[string]int{"jan": 1, "feb": 2, "mar": 3, "apr": 4, "may": 5, "jun": 6, "jul": 7, "aug": 8, "sep": 9, "oct": 10, "nov": 11, "dec": 12}
var dowNames = map[string]int{"sun": 0, "mon": 1, "tue": 2, "wed": 3, "thu": 4, "fri": 5, "sat": 6}

func parseCronField(s string, lo, hi int, names map[string]int) (cronField, error) {
	var f cronField
	for _, part := range strings.Split(s, ",") {
		rng, stepS, hasStep := strings.Cut(part, "/")
		step := 1
		if hasStep {
			n, err := strconv.Atoi(stepS)
			if err != nil || n <= 0 {
				return f, fmt.Errorf("bad step %q", part)
			}
			step = n
		}
		a, b := lo, hi
		switch {
		case rng == "*" || rng == "?":
			if step == 1 {
				f.star = true
			}
		default:
			as, bs, isRange := strings.Cut(rng, "-")
			val := func(x string) (int, error) {
				if n, ok := names[strings.ToLower(x)]; ok {
					return n, nil
				}
				return strconv.Atoi(x)
			}
			var err error
			if a, err = val(as); err != nil {
				return f, fmt.Errorf("bad value %q", part)
			}
			b = a
			if isRange {
				if b, err = val(bs); err != nil {
					return f, fmt.Errorf("bad value %q", part)
				}
			} else if hasStep {
				b = hi // "N/step" means N-max/step
			}
		}
		if a < lo || b > hi || a > b {
			return f, fmt.Errorf("out of range %q", part)
		}
		for v := a; v <= b; v += step {
			f.set |= 1 << uint(v)
		}
	}
	return f, nil
}

func ParseCron(expr string) (*CronExpr, error) {
	fs := strings.Fields(expr)
	if len(fs) != 5 {
		return nil, fmt.Errorf("expected 5 fields, found %d", len(fs))
	}
	c := &CronExpr{Text: expr}
	var err error
	if c.min, err = parseCronField(fs[0], 0, 59, nil); err != nil {
		return nil, err
	}
	if c.hour, err = parseCronField(fs[1], 0, 23, nil); err != nil {
		return nil, err
	}
	if c.dom, err = parseCronField(fs[2], 1, 31, nil); err != nil {
		return nil, err
	}
	if c.month, err = parseCronField(fs[3], 1, 12, monthNames); err != nil {
		return nil, err
	}
	if c.dow, err = parseCronField(fs[4], 0, 6, dowNames); err != nil {
		return nil, err
	}
	return c, nil
}

// Matches reports whether the expression fires in the minute containing t (UTC).
func (c *CronExpr) Matches(t time.Time) bool {
	t = t.UTC()
	has := func(f cronField, v int) bool { return f.set&(1<<uint(v)) != 0 }
	if !has(c.min, t.Minute()) || !has(c.hour, t.Hour()) || !has(c.month, int(t.Month())) {
		return false
	}
	d, w := has(c.dom, t.Day()), has(c.dow, int(t.Weekday()))
	if c.dom.star || c.dow.star {
		return d && w
	}
	return d || w
}

// ---------------------------------------------------------------------------
// generation of expressions that fire often enough inside a short horizon

func genCronExpr(tp *simrt.Tape, at time.Time, horizonMin int) string {
	m0 := at.Minute()
	minute := func() string {
		switch tp.Draw(simrt.SGen, 9) {
		case 0:
			return "*"
		case 1:
			return "*/" + fmt.Sprint(pick(tp, 2, 3, 5, 7, 15))
		case 2: // a few specific minutes soon
			var ms []string
			n := 1 + tp.Draw(simrt.SGen, 4)
			for i := 0; i < n; i++ {
				ms = append(ms, fmt.Sprint((m0+1+tp.Draw(simrt.SGen, max(horizonMin, 2)))%60))
			}
			return strings.Join(ms, ",")
		case 3: // a range
			a := (m0 + tp.Draw(simrt.SGen, 10)) % 60
			b := a + tp.Draw(simrt.SGen, 12)
			if b > 59 {
				b = 59
			}
			return fmt.Sprintf("%d-%d", a, b)
		case 4: // stepped range
			a := (m0 + tp.Draw(simrt.SGen, 5)) % 50
			return fmt.Sprintf("%d-%d/%d", a, min(a+20, 59), pick(tp, 2, 3, 4))
		case 5:
			return fmt.Sprintf("%d/%d", tp.Draw(simrt.SGen, 10), pick(tp, 2, 5, 10))
		case 6: // consecutive minutes (the "already started for this minute" guard matters)
			a := (m0 + 1 + tp.Draw(simrt.SGen, 3)) % 58
			return fmt.Sprintf("%d,%d,%d", a, a+1, a+2)
		case 7:
			return fmt.Sprintf("0,%d,59", (m0+2)%60)
		default:
			return "*"
		}
	}
	hour := func() string {
		h := at.Hour()
		switch tp.Draw(simrt.SGen, 6) {
		case 0:
			return fmt.Sprint(h)
		case 1:
			return fmt.Sprintf("%d-%d", h, min(h+1, 23))
		case 2:
			return fmt.Sprintf("%d,%d", h, (h+1)%24)
		case 3:
			return "*/1"
		default:
			return "*"
		}
	}
	monthsL := []string{"jan", "feb", "mar", "apr", "may", "jun", "jul", "aug", "sep", "oct", "nov", "dec"}
	dowsL := []string{"sun", "mon", "tue", "wed", "thu", "fri", "sat"}
	dom, month, dow := "*", "*", "*"
	next := at.Add(time.Duration(horizonMin) * time.Minute)
	switch tp.Draw(simrt.SGen, 10) {
	case 0:
		dom = fmt.Sprint(at.Day())
	case 1:
		dom = fmt.Sprint(next.Day()) // fires only after midnight if the horizon crosses it
	case 2:
		dom = "28-31"
	case 3:
		dom = "1"
	case 4:
		dow = pick(tp, fmt.Sprint(int(at.Weekday())), dowsL[at.Weekday()], strings.ToUpper(dowsL[next.Weekday()]), "1-5", "0,6")
	case 5: // both restricted: either may match
		dom = fmt.Sprint(pick(tp, at.Day(), (at.Day()%28)+1))
		dow = fmt.Sprint(pick(tp, int(at.Weekday()), (int(at.Weekday())+3)%7))
	case 6:
		dom = "?"
	}
	switch tp.Draw(simrt.SGen, 8) {
	case 0:
		month = fmt.Sprint(int(at.Month()))
	case 1:
		month = pick(tp, monthsL[at.Month()-1], strings.ToUpper(monthsL[next.Month()-1]))
	case 2:
		month = fmt.Sprintf("%d-%d", int(at.Month()), min(int(at.Month())+1, 12))
	case 3:
		month = fmt.Sprint(int(at.Month())%12 + 1) // next month: fires only across a month end
	}
	return strings.Join([]string{minute(), hour(), dom, month, dow}, " ")
}
