package engines

import (
	"errors"
	"fmt"
	"io"
	"io/fs"
	"os"
	"path/filepath"
	"sort"
	"strings"
	"syscall"
	"testing"

	"github.com/ErdemOzgen/blackdagger/internal/verifsim/simfilepath"
	"github.com/ErdemOzgen/blackdagger/internal/verifsim/simos"
	"github.com/ErdemOzgen/blackdagger/internal/verifsim/simrt"
)

// Substrate fidelity self-test (selftest/fidelity): seeded operation sequences
// are executed against the simulated file system (unmanaged mode) and against
// the real one in a temporary directory; every result — error class, bytes
// read, sizes, listings, glob matches — and the final trees must agree.

func errClassOf(err error) string {
	switch {
	case err == nil:
		return "ok"
	case errors.Is(err, fs.ErrNotExist), errors.Is(err, syscall.ENOTDIR):
		// which of the two a failed path resolution reports depends on the order in which the kernel
		// looks at the components of two-path calls; no caller in the repository distinguishes them
		return "ENOENT/ENOTDIR"
	case errors.Is(err, fs.ErrExist):
		return "EEXIST"
	case errors.Is(err, syscall.ENOTEMPTY):
		return "ENOTEMPTY"
	case errors.Is(err, syscall.EISDIR):
		return "EISDIR"
	case errors.Is(err, syscall.ENOTDIR):
		return "ENOTDIR"
	case errors.Is(err, syscall.EINVAL):
		return "EINVAL"
	case errors.Is(err, syscall.EBADF), errors.Is(err, fs.ErrClosed):
		return "EBADF"
	case errors.Is(err, io.EOF):
		return "EOF"
	case errors.Is(err, fs.ErrPermission):
		return "EPERM"
	}
	return "other:" + err.Error()
}

type fileAPI interface {
	Write(b []byte) (int, error)
	Read(b []byte) (int, error)
	Seek(off int64, whence int) (int64, error)
	Close() error
	Sync() error
	Stat() (fs.FileInfo, error)
	WriteString(s string) (int, error)
	ReadAt(b []byte, off int64) (int, error)
	WriteAt(b []byte, off int64) (int, error)
}

type fsAPI struct {
	name      string
	root      string
	mkdir     func(string, fs.FileMode) error
	mkdirAll  func(string, fs.FileMode) error
	writeFile func(string, []byte, fs.FileMode) error
	readFile  func(string) ([]byte, error)
	remove    func(string) error
	removeAll func(string) error
	rename    func(string, string) error
	stat      func(string) (fs.FileInfo, error)
	readDir   func(string) ([]fs.DirEntry, error)
	truncate  func(string, int64) error
	openFile  func(string, int, fs.FileMode) (fileAPI, error)
	glob      func(string) ([]string, error)
}

func realAPI(root string) *fsAPI {
	return &fsAPI{name: "real", root: root, mkdir: os.Mkdir, mkdirAll: os.MkdirAll, writeFile: os.WriteFile, readFile: os.ReadFile, remove: os.Remove,
		removeAll: os.RemoveAll, rename: os.Rename, stat: os.Stat, readDir: os.ReadDir, truncate: os.Truncate,
		openFile: func(n string, fl int, p fs.FileMode) (fileAPI, error) {
			f, err := os.OpenFile(n, fl, p)
			if err != nil {
				return nil, err
			}
			return f, nil
		}, glob: filepath.Glob}
}

func simAPI(root string) *fsAPI {
	return &fsAPI{name: "sim", root: root, mkdir: simos.Mkdir, mkdirAll: simos.MkdirAll, writeFile: simos.WriteFile, readFile: simos.ReadFile, remove: simos.Remove,
		removeAll: simos.RemoveAll, rename: simos.Rename, stat: simos.Stat, readDir: simos.ReadDir, truncate: simos.Truncate,
		openFile: func(n string, fl int, p fs.FileMode) (fileAPI, error) {
			f, err := simos.OpenFile(n, fl, p)
			if err != nil {
				return nil, err
			}
			return f, nil
		}, glob: simfilepath.Glob}
}

var fidNames = []string{"a", "b", "d1", "d1/x", "d1/y.dat", "d1/sub", "d1/sub/z", "d2", "d2/x", "a b.dat", "q[1].dat", "w.20240101.dat", "w.20240101_c.dat"}

// one step of the differential run: returns a textual result
func fidStep(api *fsAPI, tp *simrt.Tape, open map[int]fileAPI) string {
	names := ""
	r := fidStep0(api, tp, open, &names)
	return r + "  [" + strings.TrimSpace(names) + "]"
}

func fidStep0(api *fsAPI, tp *simrt.Tape, open map[int]fileAPI, names *string) string {
	p := func() string {
		n := fidNames[tp.Draw(simrt.SGen, len(fidNames))]
		*names += " " + n
		return api.root + "/" + n
	}
	data := func() []byte {
		n := pick(tp, 0, 1, 10, 100, 5000)
		return []byte(strings.Repeat(string(rune('a'+tp.Draw(simrt.SGen, 26))), n))
	}
	switch tp.Draw(simrt.SGen, 18) {
	case 0:
		return "mkdir " + errClassOf(api.mkdir(p(), 0o755))
	case 1:
		return "mkdirall " + errClassOf(api.mkdirAll(p(), 0o755))
	case 2:
		return "writefile " + errClassOf(api.writeFile(p(), data(), 0o644))
	case 3:
		b, err := api.readFile(p())
		return fmt.Sprintf("readfile %s %d %.20s", errClassOf(err), len(b), b)
	case 4:
		return "remove " + errClassOf(api.remove(p()))
	case 5:
		return "removeall " + errClassOf(api.removeAll(p()))
	case 6:
		a, b := p(), p()
		if strings.HasPrefix(b, a+"/") || strings.HasPrefix(a, b+"/") {
			return "rename skipped (one path inside the other)"
		}
		return "rename " + errClassOf(api.rename(a, b))
	case 7:
		fi, err := api.stat(p())
		if err != nil {
			return "stat " + errClassOf(err)
		}
		sz := fi.Size()
		if fi.IsDir() {
			sz = 0
		}
		return fmt.Sprintf("stat ok dir=%v size=%d name=%s", fi.IsDir(), sz, fi.Name())
	case 8:
		es, err := api.readDir(p())
		var ns []string
		for _, e := range es {
			ns = append(ns, fmt.Sprintf("%s:%v", e.Name(), e.IsDir()))
		}
		return fmt.Sprintf("readdir %s %v", errClassOf(err), ns)
	case 9:
		return "truncate " + errClassOf(api.truncate(p(), int64(pick(tp, 0, 3, 50))))
	case 10, 11:
		flags := []int{os.O_RDONLY, os.O_WRONLY, os.O_RDWR, os.O_WRONLY | os.O_CREATE, os.O_WRONLY | os.O_CREATE | os.O_TRUNC, os.O_WRONLY | os.O_CREATE | os.O_EXCL,
			os.O_WRONLY | os.O_APPEND, os.O_WRONLY | os.O_APPEND | os.O_CREATE, os.O_RDWR | os.O_CREATE}
		fl := flags[tp.Draw(simrt.SGen, len(flags))]
		slot := tp.Draw(simrt.SGen, 3)
		f, err := api.openFile(p(), fl, 0o644)
		if err == nil {
			if fi, e := f.Stat(); e == nil && fi.IsDir() {
				f.Close() // reading, writing and seeking a directory handle is not something the repository does
				return fmt.Sprintf("open fl=%#x directory", fl)
			}
		}
		if err == nil {
			if old := open[slot]; old != nil {
				old.Close()
			}
			open[slot] = f
		}
		return fmt.Sprintf("open fl=%#x %s", fl, errClassOf(err))
	case 12:
		slot := tp.Draw(simrt.SGen, 3)
		d := data()
		if f := open[slot]; f != nil {
			n, err := f.Write(d)
			return fmt.Sprintf("write %d %s", n, errClassOf(err))
		}
		return "write none"
	case 13:
		slot := tp.Draw(simrt.SGen, 3)
		sz := pick(tp, 1, 7, 4096)
		if f := open[slot]; f != nil {
			buf := make([]byte, sz)
			n, err := f.Read(buf)
			return fmt.Sprintf("read %d %s %.10s", n, errClassOf(err), buf[:n])
		}
		return "read none"
	case 14:
		slot := tp.Draw(simrt.SGen, 3)
		off, wh := int64(pick(tp, 0, 2, 100)), pick(tp, 0, 1, 2)
		if f := open[slot]; f != nil {
			pos, err := f.Seek(off, wh)
			return fmt.Sprintf("seek %d %s", pos, errClassOf(err))
		}
		return "seek none"
	case 15:
		slot := tp.Draw(simrt.SGen, 3)
		off, sz := int64(pick(tp, 0, 2, 100)), pick(tp, 1, 7, 4096)
		if f := open[slot]; f != nil {
			buf := make([]byte, sz)
			n, err := f.ReadAt(buf, off)
			return fmt.Sprintf("readat %d %s %.10s", n, errClassOf(err), buf[:n])
		}
		return "readat none"
	case 16:
		slot := tp.Draw(simrt.SGen, 3)
		off := int64(pick(tp, 0, 2, 100))
		d := data()
		if f := open[slot]; f != nil {
			n, err := f.WriteAt(d, off)
			if err != nil && strings.Contains(err.Error(), "O_APPEND") {
				return fmt.Sprintf("writeat %d append-handle", n)
			}
			return fmt.Sprintf("writeat %d %s", n, errClassOf(err))
		}
		return "writeat none"
	default:
		slot := tp.Draw(simrt.SGen, 3)
		if f := open[slot]; f != nil {
			delete(open, slot)
			return "close " + errClassOf(f.Close())
		}
		pat := api.root + "/" + pick(tp, "*", "d1/*", "d1/*.dat", "w.2024*", "q[1]*", "*/x", "a b*", "w.20240101*.dat")
		ms, err := api.glob(pat)
		for i := range ms {
			ms[i] = strings.TrimPrefix(ms[i], api.root)
		}
		sort.Strings(ms)
		return fmt.Sprintf("glob %s %v", errClassOf(err), ms)
	}
}

func treeOf(api *fsAPI, dir string, out map[string]string) {
	es, err := api.readDir(dir)
	if err != nil {
		return
	}
	for _, e := range es {
		p := dir + "/" + e.Name()
		if e.IsDir() {
			out[strings.TrimPrefix(p, api.root)] = "<dir>"
			treeOf(api, p, out)
		} else {
			b, _ := api.readFile(p)
			out[strings.TrimPrefix(p, api.root)] = string(b)
		}
	}
}

func TestFidelity(t *testing.T) {
	if os.Getenv("VERIF_SELFTEST") != "simos" {
		t.Skip("VERIF_SELFTEST != simos")
	}
	n := envInt("VERIF_SELFTEST_N", 2000)
	steps := 0
	for seq := 0; seq < n; seq++ {
		realRoot := t.TempDir()
		simRoot := fmt.Sprintf("/fid%d", seq)
		if err := simos.MkdirAll(simRoot, 0o755); err != nil {
			t.Fatal(err)
		}
		ra, sa := realAPI(realRoot), simAPI(simRoot)
		t1, t2 := simrt.NewTape(uint64(seq)+77), simrt.NewTape(uint64(seq)+77)
		o1, o2 := map[int]fileAPI{}, map[int]fileAPI{}
		var log []string
		for i := 0; i < 60; i++ {
			r1 := fidStep(ra, t1, o1)
			r2 := fidStep(sa, t2, o2)
			steps++
			log = append(log, r1)
			if r1 != r2 {
				t.Fatalf("sequence %d step %d: real os says %q, simos says %q\nhistory:\n  %s", seq, i, r1, r2, strings.Join(log, "\n  "))
			}
		}
		for _, f := range o1 {
			f.Close()
		}
		for _, f := range o2 {
			f.Close()
		}
		m1, m2 := map[string]string{}, map[string]string{}
		treeOf(ra, realRoot, m1)
		treeOf(sa, simRoot, m2)
		if fmt.Sprint(m1) != fmt.Sprint(m2) {
			t.Fatalf("sequence %d: final trees differ\nreal: %v\nsim:  %v\nhistory:\n  %s", seq, sortedKeys(m1), sortedKeys(m2), strings.Join(log, "\n  "))
		}
	}
	fmt.Printf("SELFTEST simos ok: %d sequences, %d operations agree with the real file system\n", n, steps)
}
