// runner orchestrates one check: (re)build the instrumented worker from the
// repository's current working tree, fan out seeded simulation workers, merge
// their results, replay + minimise new violations in a fresh process, apply the
// known-findings file, write evidence, and exit 0 / 1 / 2.
//
//	runner check <Cxx> quick|thorough
//	runner replay <Cxx> <file>
//	runner build            (setup: warm the caches)
package main

import (
	"crypto/sha256"
	"encoding/hex"
	"encoding/json"
	"fmt"
	"io"
	"io/fs"
	"os"
	"os/exec"
	"path/filepath"
	"sort"
	"strconv"
	"strings"
	"sync"
	"syscall"
	"time"
)

var (
	verifDir = "/verif"
	repoDir  = "/repo"
)

type propInfo struct {
	Engine     string
	Level      string
	Rule       string
	Assume     []string
	MustProbes []string // thorough tier: a probe stuck at 0 is exit 2
	QuickS     int
	ThoroughS  int
}

var commonAssume = []string{
	"simulated substrate (simos/simnet/simexec/simsync) is faithful to Linux and the Go standard library for the operations blackdagger uses (see DESIGN.md §6 and selftest/fidelity)",
	"instrumented copy is built with go1.26.8 and synchronous timer channels; the shipped binary uses the module's toolchain",
	"process kill model: completed writes persist, user-space buffers die with the process (no power-loss model)",
}

var props = map[string]propInfo{}

const baseStubs = "kernel file system, unix sockets, process table and signals, os/exec plumbing, Go mutexes/WaitGroup (scheduler-aware), step commands (scripted simstep)"

// which components run real code and which a stub, per engine
var engineReal = map[string]string{
	"stepsim":  "internal/dag (loader, builder, parser), internal/dag/scheduler, internal/dag/executor/command.go, internal/agent, internal/sock, internal/client, internal/persistence/{jsondb,filecache,local,model}, internal/logger, internal/util; third-party yaml/mapstructure/slog unmodified",
	"histsim":  "internal/persistence/{jsondb,filecache,model}, internal/util; the recorder and reader processes are harness code calling the HistoryStore interface",
	"agentsim": "cmd/{start,retry,restart,stop}.go closures (real cobra commands), internal/config (viper, steered by environment), internal/dag (loader, builder, parser), internal/dag/scheduler, internal/dag/executor/command.go, internal/agent, internal/sock (server and client, HTTP framing), internal/client, internal/scheduler/job.go (start guard), internal/persistence/{jsondb,filecache,local,model}, internal/logger, internal/util",
	"storesim": "internal/frontend/dag/handler.go (create, delete, post-action save/rename through the generated operation handler types), internal/client, internal/persistence/local (DAG store, flag store), internal/persistence/{jsondb,filecache,model}, internal/dag loader/builder/parser (validation on save, metadata on list), internal/util",
	"apisim":   "internal/frontend/dag/handler.go (every post-action), internal/client (StartAsync/Stop/Retry/UpdateStatus/GetStatus), cmd/{start,retry,stop}.go closures as spawned simulated processes, internal/agent, internal/sock, internal/dag/scheduler, internal/persistence/{jsondb,filecache,local,model}, internal/dag, internal/util",
	"cronsim":  "internal/scheduler (daemon loop, entry reader, job guards, filenotify poller), internal/client, cmd/{start,restart,stop}.go closures as spawned simulated processes, internal/agent, internal/sock, internal/dag (loader incl. schedule parsing, robfig/cron), internal/persistence/{jsondb,filecache,local,model}, internal/util",
}
var engineStubs = map[string]string{
	"stepsim":  baseStubs,
	"histsim":  "kernel file system and clock; Go mutexes (scheduler-aware)",
	"agentsim": baseStubs,
	"storesim": "kernel file system and clock; the go-swagger HTTP server, request binding/validation and auth middleware (the configured operation handlers are called directly)",
	"apisim":   baseStubs + "; the go-swagger HTTP server, request binding/validation and auth middleware (the configured operation handlers are called directly)",
	"cronsim":  baseStubs + "; inotify (simfsnotify)",
}

func init() {
	stepRule := "one run = one generated DAG (1-8 steps, thorough up to 12; random acyclic depends, continueOn, retryPolicy, preconditions, maxActiveRuns, delay, handlers; per-attempt outcome scripts) executed by the real Agent/Scheduler in a simulated process with simulated step children under one seeded schedule (sticky/random/PCT, lock yields, stalls, op latencies). distinct = distinct schedule signature (hash of the sequence of (process role, op kind, resource class) over all scheduler steps); non-trivial = %s"
	props["C01"] = propInfo{Engine: "stepsim", Level: "exploration", Rule: fmt.Sprintf(stepRule, "at least two step commands were executed; a share of the runs is the iofault variant: a third of the steps carry a script, and a seeded share (1 in 2..20) of the agent's own operations on step log files, handler log files and script files fails (ENOSPC, EIO, EMFILE; half of the failing writes are short writes; also the pipe of a step that captures its output) — order, attempt and outcome clauses are then judged from the step processes and final labels, and only the step or handler whose file was hit may be reported failed or not run"), MustProbes: []string{"run_with_file_fault"}, QuickS: 20, ThoroughS: 600}
	props["C02"] = propInfo{Engine: "stepsim", Level: "exploration", Rule: fmt.Sprintf(stepRule, "at least two step commands were executed; a third of the runs is the iofault variant (failing operations on the agent's log, handler-log and script files), judged by the containment clause alone: no step is executed downstream of a dependency that is finally failed without continueOn.failure, canceled, or skipped without continueOn.skipped; a sixth of the retried steps of that variant name a working directory that does not exist: every attempt fails while the executor is created, the step must use up its retries and end failed"), MustProbes: []string{"run_with_file_fault", "missing_dir_step_launched"}, QuickS: 20, ThoroughS: 600}
	props["C03"] = propInfo{Engine: "stepsim", Level: "exploration", Rule: fmt.Sprintf(stepRule, "at least two step commands were executed, or a dry-run of a generated DAG; a third of the runs are stopped (at a seeded scheduler step or fake time) or hit the DAG timeout, and a quarter of the scheduling runs have slow history writes (fault slow_op); a share of the runs is the iofault variant: a third of the steps carry a script, and a seeded share (1 in 2..20) of the agent's own operations on step log files, handler log files and script files fails (ENOSPC, EIO, EMFILE; half of the failing writes are short writes; also the pipe of a step that captures its output) — order, attempt and outcome clauses are then judged from the step processes and final labels, and only the step or handler whose file was hit may be reported failed or not run; a sixth of the retried steps of that variant name a working directory that does not exist: every attempt fails while the executor is created, the step must use up its retries and end failed"), MustProbes: []string{"run_with_file_fault", "missing_dir_step_launched"}, QuickS: 20, ThoroughS: 600}
	props["C04"] = propInfo{Engine: "stepsim", Level: "exploration", Rule: fmt.Sprintf(stepRule, "handlers configured, a stop injected (at a seeded scheduler step or at a seeded fake time), or a DAG precondition scripted; a fifth of the steps capture an output variable; expected outcomes are grounded in the exit statuses of the step processes; a share of the runs is the iofault variant: a third of the steps carry a script, and a seeded share (1 in 2..20) of the agent's own operations on step log files, handler log files and script files fails (ENOSPC, EIO, EMFILE; half of the failing writes are short writes; also the pipe of a step that captures its output) — order, attempt and outcome clauses are then judged from the step processes and final labels, and only the step or handler whose file was hit may be reported failed or not run"), MustProbes: []string{"exit_handler_ran", "stop_after_last_step", "run_with_file_fault", "recorded_log_had_failed_write"}, QuickS: 20, ThoroughS: 600}
	props["C05"] = propInfo{Engine: "stepsim", Level: "exploration", Rule: fmt.Sprintf(stepRule, "the stop (socket /stop or SIGTERM at a seeded scheduler step) took effect while the run was alive, or the DAG timeout elapsed with steps running"), MustProbes: []string{"stop_with_live_children", "ignoring_child_at_stop", "repeat_alive_at_stop", "timeout_elapsed", "signal_on_stop_delivered", "step_left_background_process"}, QuickS: 25, ThoroughS: 600}
	props["C12"] = propInfo{Engine: "stepsim", Level: "exploration", Rule: "one run = a generated DAG of 1-3 steps with a subset of {stdout file, stderr file, output variable}, retries 0-2, scripted byte patterns on stdout/stderr (sizes around 4 KiB / 64 KiB boundaries, seeded chunking, interleaving), exec-style children (bytes through os/exec-like pipes and copy goroutines) or a direct-write executor; files are compared byte-exactly after the run; a quarter of the runs are stopped, a third of those exactly when the agent opens the log file of a step's second attempt. distinct = distinct schedule signature; non-trivial = some step printed at least one byte", MustProbes: []string{"cfg_retry+stdout", "cfg_stderr+direct", "cfg_plain"}, QuickS: 20, ThoroughS: 600}
	props["C06"] = propInfo{Engine: "histsim", Level: "exploration", Rule: "one run = a generated sequence of 3-20 (thorough 3-42) operations (start/write/close-with-compaction/update/rename/remove-old/remove-all/sleep) over 2-3 DAG names drawn from a grammar with spaces, dots, glob metacharacters, shared prefixes, the compaction suffix and timestamp look-alikes, run against the real jsondb store on the simulated disk and fake clock, with the host's time zone drawn per run (UTC or +1 h … +14 h) (starts in the same second/minute, either side of midnight, days apart; status lines up to 140 KB); after every operation lookup-by-id, latest and recent(1,3,100) for every DAG are compared with HistoryModel through a long-lived cached instance and a fresh one. A quarter of the runs are a race batch: 6-15 rounds of 2-3 back-to-back writes to one run's record (edits through another instance, edits through the same long-lived instance as in the API server, or the status lines of a run in progress) with a tight poller on the cached instance; after every round lookup, recent(1) and latest of the cached instance must show the last status recorded. A fifth are the diskfull variant: the same kind of sequence while a seeded share (1 in 2..9) of the writes to history records fails (ENOSPC/EIO) after 0, 1, half or all but one byte; an operation that reported an error has acknowledged nothing, and every query must return, for every run, a status between the last acknowledged and the last attempted one. distinct = distinct schedule signature; non-trivial = at least two runs were recorded (diskfull: a write failed and a run has acknowledged data)", MustProbes: []string{"race_round", "race_round_shared", "run_ended_after_its_record_was_removed"}, QuickS: 20, ThoroughS: 600}
	props["C07"] = propInfo{Engine: "histsim", Level: "fault_enumeration", Rule: "one scenario = a small prior history plus one victim operation (a whole run with compaction, an update, a rename or a retention clean-up); pass 1 counts the victim's simulated system calls, then the same scenario is re-run once per crash point: kill before / after the k-th system call, or inside a write with a torn prefix of 0, 1, half or all-but-one byte (quick: 6 seeded points per scenario; thorough: every point); in half of the scenarios whose victim records a run or an update the long-lived cached instance keeps polling while the victim runs. After the kill the surviving disk is queried through a cached and a fresh store instance; then a new process records a manual status update of the interrupted run (and of one other run), which once acknowledged must be what lookup, latest and recent return, whatever the killed process left at the end of the record. A quarter of the scenarios instead run a concurrent reader against the un-killed victim. evaluations = simulated runs (fault-free pass + crash passes); distinct = distinct schedule signature of scenarios in which a crash landed", MustProbes: []string{"crash_landed", "concurrent_query_rounds", "update_after_crash_acknowledged", "latest_says_no_data_after_crash"}, QuickS: 20, ThoroughS: 600}
	props["C08"] = propInfo{Engine: "agentsim", Level: "exploration", Rule: fmt.Sprintf("one run = a generated DAG executed through the real CLI closures (cmd start/retry/stop) as simulated processes over the simulated disk, sockets and process table, with scripted step children; %s. distinct = distinct schedule signature; non-trivial = %s", "an observer process polls the real client (GetLatestStatus/GetCurrentStatus) at seeded instants during and after the run and every answer is checked against the ground-truth step intervals (invoke/return stamps); in half of the runs the agent is killed (before/after a seeded system-call index, inside the end-of-run compaction of its record, or after a handler command has started; a third of those runs have an earlier successful run of the DAG) and afterwards the status, a new start and the daemon's start guard are checked; a third of the status scenarios inject one transient accept(2) error (EMFILE) on the run's status socket, a sixth have a step with a 76 KB inline script (a status document over 64 KiB), and a quarter are quiet (no injected stalls or latencies, retry intervals of 4-5 s): there a status query that runs into the 3 s client timeout while the run's socket is listening is a violation", "at least one command executed and at least two observations were made"), MustProbes: []string{"observed_while_listening", "observed_after_exit", "killed_with_steps_pending", "killed_during_compaction", "killed_during_handlers", "crash_with_prior_successful_run", "restart_after_crash", "daemon_guard_after_crash"}, QuickS: 20, ThoroughS: 600}
	props["C16"] = propInfo{Engine: "agentsim", Level: "exploration", Rule: fmt.Sprintf("one run = a generated DAG executed through the real CLI closures (cmd start/retry/stop) as simulated processes over the simulated disk, sockets and process table, with scripted step children; %s. distinct = distinct schedule signature; non-trivial = %s", "two (thorough: up to three) starts of the same file — the competitor is a start or, in a third of the runs, a retry of an earlier run — the second released at a seeded scheduler step of the first's life or at the same moment; a third of the runs inject one transient accept(2) error on the active run's status socket; execution spans of the starts must not overlap, a refused start exits non-zero without executing or recording anything, the active run's endpoint keeps answering with its own request id", "the lifetimes of two start processes overlapped"), MustProbes: []string{"starts_overlapped", "start_refused", "survivor_probed", "probe_bind_window_hit", "competitor_is_retry"}, QuickS: 20, ThoroughS: 600}
	props["C10"] = propInfo{Engine: "agentsim", Level: "exploration", Rule: fmt.Sprintf("one run = a generated DAG executed through the real CLI closures (cmd start/retry/stop) as simulated processes over the simulated disk, sockets and process table, with scripted step children; %s; in a quarter of the scenarios the DAG also holds the record of another run that sorts first in the retry's lookup and is gone (ENOENT) or unreadable (EIO) when the retry opens it (fault history_file_vanishes). distinct = distinct schedule signature; non-trivial = %s", "a first run ended naturally, by `stop` at a seeded step, or by a kill at a seeded system call (leaving running / not-started nodes recorded), optionally the definition is edited, then `retry --req=<id>` runs as a new process under fresh outcome scripts; kept steps must not execute and must be copied unchanged, unfinished steps and everything downstream re-run in dependency order, the retry terminates and is a new record", "a retry process ran"), MustProbes: []string{"first_run_killed", "recorded_running_node", "recorded_not_started_node", "step_in_retry_set"}, QuickS: 20, ThoroughS: 600}
	props["C11"] = propInfo{Engine: "agentsim", Level: "exploration", Rule: "one run = a generated DAG (1-2 producers with output:, a consumer before and after a failing step, a late producer downstream of it, optionally a two-hop consumer; exit handler always, success/failure handlers at random; half of the consumers also reference the values in their command line) started through the real CLI closure with parameters from a structural grammar (0-3 positional or NAME= items; bare, quoted with spaces, '=', escaped quotes, UTF-8) given with -p or as DAG defaults; then 0-2 `retry --req` processes (the failing step fails again except possibly in the last) and optionally a `restart`, each a new simulated process that reads the previous record; in a third of the lineages the DAG's env: gives some of the captured output names a default value, which every consumer after the producer must see replaced; in a third of the lineages half of the writes of a compacted record at the end of a run fail with ENOSPC (fault compaction_write_error). Captured output texts are salted per execution and cover padding, newlines, quotes, '$', backslashes, UTF-8, 4 KiB and 64 KiB boundaries. Every child's environment and argv (as assembled by the real command executor) is compared with the given parameter values and with the trimmed text of the most recent execution of each upstream producer in the run lineage. distinct = distinct schedule signature; non-trivial = more than two commands executed", MustProbes: []string{"process_retry", "process_restart", "output_seen_recorded-run", "output_seen_by_handler", "output_over_64k_seen", "argv_checked", "params_checked_retry", "params_checked_restart", "producer_succeeds_at_second_attempt"}, QuickS: 20, ThoroughS: 600}
	props["C20"] = propInfo{Engine: "apisim", Level: "exploration", Rule: "one run = 1-2 generated DAGs (1-3 steps of 50 ms - 9 s) and a seeded sequence of 6-14 (thorough 6-25) events issued by a server process to the real post-action operation handler: start (with parameters from the C11 grammar), stop, retry, suspend, mark-success, mark-failed (request id: latest / older / bogus / missing / of the other DAG; step: valid / bogus / missing), save with an invalid text, rename without a name, unknown action, missing action, unknown DAG id, interleaved with waits and kills of the DAG's agent process; in a third of the runs fault no_space makes half of the server's own writes to history records fail with ENOSPC. Agents are real simulated processes spawned by the real client (StartAsync/Retry -> exec -> cmd start/retry closures), so the states never-run / running / finished / failed / canceled / crashed are reached for real. Every answer is judged against the ground-truth state of the DAG's processes over the call's invoke..return interval (running = socket listening throughout; idle = no agent alive and no accepted start pending; otherwise either answer is accepted), and the dumps of history, definition and flag files before and after each call are compared (files of runs in progress excepted); after a refused status edit the addressed run as the server itself shows it (lookup by request id through the real client) must be unchanged too. The event kill-torn makes the agent of the addressed DAG die inside its next write to its record (fault torn_write): the crashed run's record ends in an incomplete line, and later edits of it are judged like any other. distinct = distinct schedule signature; non-trivial = at least three API calls and one agent process", MustProbes: []string{"action_start_running", "action_start_idle", "action_stop_idle", "action_stop_running", "action_mark-failed_running", "edit_accepted", "agent_killed", "start_params_checked", "malformed_unknown-request-id", "malformed_unknown-step", "edit_refused_after_write_fault", "torn_kill_armed"}, QuickS: 20, ThoroughS: 600}
	props["C09"] = propInfo{Engine: "cronsim", Level: "exploration", Rule: "one run = the real `blackdagger scheduler` daemon as a simulated process over 8-70 (thorough 15-400) simulated minutes from a seeded epoch (month ends, 29 Feb, year end, hour boundaries, arbitrary second of the minute), 1-3 DAG files whose schedules come from the 5-field cron grammar (lists, ranges, steps, names, dom/dow interplay; string, list and start/stop/restart map forms) with steps of 1-400 s executed by real agents the daemon spawns through the real client, plus seeded operator and fault events: add / edit / remove a DAG file, suspend / resume, malformed files (bad YAML, bad cron, type-confused schedule) — in half of the runs half of the additions and edits arrive by rename from a staging directory — daemon kill + restart after 0.1-200 s (often just after a minute boundary), daemon freeze for 2-250 s (late and bunched ticks), agent kill, manual start; in a fifth of the runs inotify is unavailable and the daemon's polling fallback watches the directory; in a quarter fault flag_stat_error makes a third of the daemon's look-ups of a suspend flag that does not exist fail with EACCES/EIO; in a third fault watcher_error makes the notification backend report an error on its Errors channel before one in three events (no event lost); a third of the DAGs end within milliseconds of a later tick, and fault slow_op then delays the removal of the run's uncompacted record to a seeded 0-600 µs after the minute boundary. Oracle per DAG, daemon life and evaluated minute (normal tick, start-up minute, ticks delivered after a freeze), from outside only: the `start`/`restart` processes the daemon spawned within 5 s of the evaluation, compared with an independent cron matcher (cross-checked against robfig/cron) and the ground-truth file, flag and process timelines; a start is required only when every condition is definite, forbidden only when one is definitely false, otherwise either is accepted. distinct = distinct schedule signature; non-trivial = at least one evaluation required a start", MustProbes: []string{"evaluation_required_start", "evaluation_startup", "evaluation_after-freeze", "start_issued", "bad_file_added", "restart_issued", "run_stopped_by_schedule", "evaluation_while_previous_run_shuts_down", "file_removed_between_read_and_watch"}, QuickS: 25, ThoroughS: 600}
	props["C15"] = propInfo{Engine: "stepsim", Level: "exploration", Rule: fmt.Sprintf(stepRule, "at least two step commands overlapped in time; in a quarter of the limited scheduling runs the limit is declared in the installation's base configuration, which in half of those cannot be read when the run starts (fault base_config_unreadable: the run must be refused); a quarter of the runs is the iofault variant (failing operations on the agent's log, handler-log and script files), where the number of steps executing at once (a process alive, or the retry wait after a failed attempt, including an attempt that failed before its process existed because no pipe could be had for its captured output or because its working directory does not exist) is compared with the limit"), MustProbes: []string{"limit_reached", "unlimited_overlap", "run_with_file_fault", "retry_wait_after_setup_failure"}, QuickS: 20, ThoroughS: 600}
	props["C18"] = propInfo{Engine: "storesim", Level: "fault_enumeration", Rule: "sequential batch: one run = a generated sequence of 4-16 (thorough 4-40) operations create / save (valid, 256 KiB, with schedule, bad YAML, unknown key, step without command or name, bad cron, steps not a list, empty) / rename / delete / list / recorded run / status update / sleep over 2-4 prefix-related names (with spaces, dashes, underscores), issued through the real API operation handlers (frontend/dag) -> client -> local DAG store + jsondb on the simulated disk, alternately through a long-lived cached server and a fresh server process; after every operation the bytes of every definition file and the history of every DAG (request ids, newest first, last status of each) are compared with a reference model; in a third of the sequences half of the server's removals of history records fail (fault unlink_error: EIO/EPERM) around a delete of a DAG holding several runs — a delete that could not remove everything must be refused and keep the definition; in a quarter the look-up of the existing target of a create or rename fails with EIO (fault stat_error), and the target must be left alone. crash batch: a short prior sequence, then one save by a server process; pass 1 counts its simulated system calls, then the scenario is re-run once per crash point (kill before / after the k-th call, or inside a write with a torn prefix; quick: 6 seeded points, thorough: all) and the file must hold entirely the old or entirely the new text and every other DAG and history must be untouched.; a third of the recorded runs are written by a process whose time zone is ahead of the server's (the record name carries that wall clock). evaluations = simulated runs; distinct = distinct schedule signature; non-trivial = a DAG existed (sequential) or a crash landed (crash batch)", MustProbes: []string{"crash_landed", "rename_onto_existing", "rename_with_history", "delete_with_history", "create_on_existing", "save_invalid_text", "run_recorded_in_a_zone_ahead", "run_in_progress_over_next_op", "dag_addressed_by_file_name"}, QuickS: 20, ThoroughS: 600}
}

func die(code int, format string, a ...any) {
	fmt.Fprintf(os.Stderr, format+"\n", a...)
	os.Exit(code)
}

func envInt(name string, def int) int {
	if v := os.Getenv(name); v != "" {
		if n, err := strconv.Atoi(v); err == nil {
			return n
		}
	}
	return def
}

func goEnv() []string {
	env := os.Environ()
	env = append(env, "GOFLAGS=-mod=mod", "GOPROXY=off", "GOSUMDB=off", "GOTOOLCHAIN=local",
		"PATH=/opt/veriftools/go1.26.8/bin:"+os.Getenv("PATH"))
	if os.Getenv("GOMODCACHE") == "" {
		env = append(env, "GOMODCACHE=/root/go/pkg/mod")
	}
	if os.Getenv("GOCACHE") == "" {
		env = append(env, "GOCACHE=/root/.cache/go-build")
	}
	return env
}

// treeHash covers everything the worker binary is built from.
func treeHash() string {
	h := sha256.New()
	add := func(root string, keep func(rel string, d fs.DirEntry) bool) {
		var files []string
		_ = filepath.WalkDir(root, func(p string, d fs.DirEntry, err error) error {
			if err != nil {
				return nil
			}
			rel, _ := filepath.Rel(root, p)
			if d.IsDir() {
				if rel == ".git" || rel == "ui" || rel == "bin" || strings.HasPrefix(rel, ".cache") {
					return filepath.SkipDir
				}
				return nil
			}
			if keep(rel, d) {
				files = append(files, p)
			}
			return nil
		})
		sort.Strings(files)
		for _, f := range files {
			b, err := os.ReadFile(f)
			if err != nil {
				continue
			}
			fmt.Fprintf(h, "%s\x00%d\x00", f, len(b))
			h.Write(b)
		}
	}
	add(repoDir, func(rel string, d fs.DirEntry) bool {
		return (strings.HasSuffix(rel, ".go") && !strings.HasSuffix(rel, "_test.go")) || rel == "go.mod" || rel == "go.sum" || strings.Contains(rel, "/testdata/") || strings.HasSuffix(rel, ".yaml") && strings.HasPrefix(rel, "internal/")
	})
	add(filepath.Join(verifDir, "sim"), func(rel string, d fs.DirEntry) bool { return true })
	add(filepath.Join(verifDir, "tools", "simrewrite"), func(rel string, d fs.DirEntry) bool { return true })
	b, _ := os.ReadFile(filepath.Join(verifDir, "bin", "build-worker"))
	h.Write(b)
	return hex.EncodeToString(h.Sum(nil))[:24]
}

// ensureWorker returns the path of the worker binary for the current tree.
func ensureWorker() (string, string) {
	key := treeHash()
	dir := filepath.Join(verifDir, ".cache", "build", key)
	bin := filepath.Join(dir, "worker.test")
	if err := os.MkdirAll(dir, 0o755); err != nil {
		die(2, "runner: %v", err)
	}
	// serialise concurrent builds of the same tree
	lf, err := os.OpenFile(filepath.Join(dir, "lock"), os.O_CREATE|os.O_RDWR, 0o644)
	if err == nil {
		_ = syscall.Flock(int(lf.Fd()), syscall.LOCK_EX)
		defer func() { _ = syscall.Flock(int(lf.Fd()), syscall.LOCK_UN); lf.Close() }()
	}
	if st, err := os.Stat(bin); err == nil && st.Size() > 0 {
		now := time.Now()
		_ = os.Chtimes(dir, now, now) // in use: keeps it out of the pruning below
		return bin, key
	}
	t0 := time.Now()
	cmd := exec.Command(filepath.Join(verifDir, "bin", "build-worker"), bin, repoDir)
	cmd.Env = goEnv()
	cmd.Stdout = os.Stderr
	cmd.Stderr = os.Stderr
	if err := cmd.Run(); err != nil {
		_ = os.Remove(bin)
		die(2, "runner: INFRA build of the instrumented tree failed (%v) — not a property verdict", err)
	}
	fmt.Fprintf(os.Stderr, "runner: built worker for tree %s in %.1fs\n", key, time.Since(t0).Seconds())
	pruneCache(key)
	return bin, key
}

func pruneCache(keep string) {
	base := filepath.Join(verifDir, ".cache", "build")
	ents, _ := os.ReadDir(base)
	type ent struct {
		name string
		t    time.Time
	}
	var es []ent
	for _, e := range ents {
		if !e.IsDir() || e.Name() == keep {
			continue
		}
		fi, err := e.Info()
		if err != nil {
			continue
		}
		es = append(es, ent{e.Name(), fi.ModTime()})
	}
	sort.Slice(es, func(i, j int) bool { return es[i].t.After(es[j].t) })
	for i, e := range es {
		// a build that was used within the last three hours may belong to a check that is still running
		// (a thorough tier of another tree started from a second shell); beyond that the three newest stay, and never more than forty
		if (i >= 3 && time.Since(e.t) > 3*time.Hour) || i >= 40 {
			_ = os.RemoveAll(filepath.Join(base, e.name))
		}
	}
}

// ---- types mirrored from the worker -----------------------------------------

type ViolationRecord struct {
	Prop     string          `json:"prop"`
	Sig      string          `json:"sig"`
	Msg      string          `json:"msg"`
	Seed     uint64          `json:"seed"`
	RunIndex int             `json:"run_index"`
	Worker   int             `json:"worker"`
	Variant  string          `json:"variant"`
	Thorough bool            `json:"thorough"`
	Tape     [][]uint32      `json:"tape"`
	Hash     uint64          `json:"trace_hash"`
	Sample   json.RawMessage `json:"sample,omitempty"`
	Trace    []string        `json:"trace,omitempty"`
	Events   []string        `json:"events,omitempty"`
	Shrunk   json.RawMessage `json:"minimised,omitempty"`
	AllSigs  []string        `json:"all_sigs,omitempty"`
}

type WorkerResult struct {
	Prop         string            `json:"prop"`
	Worker       int               `json:"worker"`
	BaseSeed     uint64            `json:"base_seed"`
	Runs         int               `json:"runs"`
	NonTrivial   int               `json:"nontrivial"`
	Inconclusive map[string]int    `json:"inconclusive"`
	Infra        []string          `json:"infra"`
	SchedSigs    []uint64          `json:"sched_sigs"`
	Steps        int64             `json:"steps"`
	Ops          int64             `json:"ops"`
	Procs        int64             `json:"procs"`
	FakeNs       int64             `json:"fake_ns"`
	Faults       map[string]int    `json:"faults"`
	Probes       map[string]int    `json:"probes"`
	Variants     map[string]int    `json:"variants"`
	Violations   []ViolationRecord `json:"violations"`
	ViolCounts   map[string]int    `json:"viol_counts"`
	Samples      []json.RawMessage `json:"samples"`
	DetChecked   int               `json:"det_checked"`
	DetMismatch  []string          `json:"det_mismatch"`
	WallS        float64           `json:"wall_s"`
	FirstSeed    uint64            `json:"first_seed"`
	LastSeed     uint64            `json:"last_seed"`
}

type ReplayFile struct {
	Property string          `json:"property"`
	Engine   string          `json:"engine"`
	Tier     string          `json:"tier"`
	TreeHash string          `json:"tree_hash"`
	Record   ViolationRecord `json:"record"`
}

type ReplayResult struct {
	Reproduced bool             `json:"reproduced"`
	Sigs       []string         `json:"sigs"`
	Hash       uint64           `json:"trace_hash"`
	Record     *ViolationRecord `json:"record"`
	Infra      string           `json:"infra"`
}

type Finding struct {
	Property  string `json:"property"`
	Signature string `json:"signature"`
	What      string `json:"what"`
	Status    string `json:"status"` // open | fixed
	Commit    string `json:"commit,omitempty"`
}

func loadFindings() []Finding {
	b, err := os.ReadFile(filepath.Join(verifDir, "known_findings.json"))
	if err != nil {
		return nil
	}
	var f struct {
		Findings []Finding `json:"findings"`
	}
	if err := json.Unmarshal(b, &f); err != nil {
		die(2, "runner: known_findings.json: %v", err)
	}
	return f.Findings
}

func sigMatch(pattern, sig string) bool {
	if strings.HasSuffix(pattern, "*") {
		return strings.HasPrefix(sig, strings.TrimSuffix(pattern, "*"))
	}
	return pattern == sig
}

func runWorker(bin string, env []string, timeout time.Duration) (string, error) {
	cmd := exec.Command(bin, "-test.run", "^TestWorker$", "-test.timeout", "0", "-test.cpu", "2")
	cmd.Env = append(os.Environ(), env...)
	var out strings.Builder
	cmd.Stdout = &out
	cmd.Stderr = &out
	if err := cmd.Start(); err != nil {
		return "", err
	}
	done := make(chan error, 1)
	go func() { done <- cmd.Wait() }()
	select {
	case err := <-done:
		return out.String(), err
	case <-time.After(timeout):
		_ = cmd.Process.Kill()
		<-done
		return out.String(), fmt.Errorf("worker exceeded its wall-clock limit of %v", timeout)
	}
}

func main() {
	if len(os.Args) < 2 {
		die(2, "usage: runner check <Cxx> quick|thorough | replay <Cxx> <file> | build")
	}
	if v := os.Getenv("VERIF_DIR"); v != "" {
		verifDir = v
	}
	if v := os.Getenv("VERIF_REPO"); v != "" {
		repoDir = v
	}
	switch os.Args[1] {
	case "build":
		bin, key := ensureWorker()
		fmt.Println(bin, key)
	case "check":
		if len(os.Args) < 4 {
			die(2, "usage: runner check <Cxx> quick|thorough")
		}
		check(os.Args[2], os.Args[3])
	case "replay":
		if len(os.Args) < 4 {
			die(2, "usage: runner replay <Cxx> <file>")
		}
		replay(os.Args[2], os.Args[3])
	default:
		die(2, "runner: unknown command %s", os.Args[1])
	}
}

func replay(prop, file string) {
	bin, _ := ensureWorker()
	tmp, _ := os.MkdirTemp("", "verifreplay")
	defer os.RemoveAll(tmp)
	outp := filepath.Join(tmp, "out.json")
	out, err := runWorker(bin, []string{"VERIF_PROP=" + prop, "VERIF_REPLAY=" + file, "VERIF_OUT=" + outp}, 10*time.Minute)
	if err != nil {
		fmt.Print(out)
		die(2, "runner: replay worker failed: %v", err)
	}
	var rr ReplayResult
	b, _ := os.ReadFile(outp)
	_ = json.Unmarshal(b, &rr)
	if rr.Record != nil {
		for _, l := range rr.Record.Trace {
			fmt.Println(l)
		}
		fmt.Println("scenario:", string(rr.Record.Sample))
		fmt.Println("message:", rr.Record.Msg)
	}
	fmt.Printf("replay: reproduced=%v signatures=%v trace_hash=%x\n", rr.Reproduced, rr.Sigs, rr.Hash)
	if rr.Reproduced {
		fmt.Printf("VIOLATION property=%s replay=%s\n", prop, file)
		os.Exit(1)
	}
	os.Exit(0)
}

func check(prop, tier string) {
	pi, ok := props[prop]
	if !ok {
		die(2, "runner: property %s has no check (see MANIFEST.json not_applicable)", prop)
	}
	if v := os.Getenv("VERIF_TIER"); v == "quick" || v == "thorough" {
		tier = v
	}
	if tier != "quick" && tier != "thorough" {
		die(2, "runner: tier must be quick or thorough")
	}
	t0 := time.Now()
	seed := envInt("VERIF_SEED", 1)
	workers := envInt("VERIF_WORKERS", 16)
	budget := pi.QuickS
	if tier == "thorough" {
		budget = pi.ThoroughS
	}
	budget = envInt("VERIF_BUDGET_S", budget)
	bin, key := ensureWorker()
	tmp, err := os.MkdirTemp("", "verifrun")
	if err != nil {
		die(2, "runner: %v", err)
	}
	defer os.RemoveAll(tmp)

	results := make([]*WorkerResult, workers)
	logs := make([]string, workers)
	errs := make([]error, workers)
	var wg sync.WaitGroup
	for w := 0; w < workers; w++ {
		wg.Add(1)
		go func(w int) {
			defer wg.Done()
			outp := filepath.Join(tmp, fmt.Sprintf("w%d.json", w))
			env := []string{"VERIF_PROP=" + prop, "VERIF_SEED=" + strconv.Itoa(seed), "VERIF_WORKER=" + strconv.Itoa(w),
				"VERIF_BUDGET_S=" + strconv.Itoa(budget), "VERIF_TIER=" + tier, "VERIF_OUT=" + outp}
			out, err := runWorker(bin, env, time.Duration(budget)*time.Second*3+5*time.Minute)
			logs[w] = out
			if err != nil {
				errs[w] = err
				return
			}
			b, err := os.ReadFile(outp)
			if err != nil {
				errs[w] = err
				return
			}
			var r WorkerResult
			if err := json.Unmarshal(b, &r); err != nil {
				errs[w] = err
				return
			}
			results[w] = &r
		}(w)
	}
	wg.Wait()

	infra := []string{}
	merged := &WorkerResult{Faults: map[string]int{}, Probes: map[string]int{}, Variants: map[string]int{}, ViolCounts: map[string]int{}, Inconclusive: map[string]int{}}
	sigs := map[uint64]struct{}{}
	var samples []json.RawMessage
	for w, r := range results {
		if r == nil {
			tail := logs[w]
			if len(tail) > 3000 {
				tail = tail[len(tail)-3000:]
			}
			infra = append(infra, fmt.Sprintf("worker %d failed: %v\n%s", w, errs[w], tail))
			continue
		}
		merged.Runs += r.Runs
		merged.NonTrivial += r.NonTrivial
		merged.Steps += r.Steps
		merged.Ops += r.Ops
		merged.Procs += r.Procs
		merged.FakeNs += r.FakeNs
		merged.DetChecked += r.DetChecked
		merged.DetMismatch = append(merged.DetMismatch, r.DetMismatch...)
		for k, v := range r.Faults {
			merged.Faults[k] += v
		}
		for k, v := range r.Probes {
			merged.Probes[k] += v
		}
		for k, v := range r.Variants {
			merged.Variants[k] += v
		}
		for k, v := range r.ViolCounts {
			merged.ViolCounts[k] += v
		}
		for k, v := range r.Inconclusive {
			merged.Inconclusive[k] += v
		}
		for _, s := range r.SchedSigs {
			sigs[s] = struct{}{}
		}
		merged.Violations = append(merged.Violations, r.Violations...)
		for _, i := range r.Infra {
			infra = append(infra, i)
		}
		samples = append(samples, r.Samples...)
	}
	for _, m := range merged.DetMismatch {
		infra = append(infra, "nondeterminism: same seed, different trace: "+m)
	}
	nIncon := 0
	for _, v := range merged.Inconclusive {
		nIncon += v
	}
	if merged.Runs > 0 && nIncon*20 > merged.Runs {
		infra = append(infra, fmt.Sprintf("%d of %d runs inconclusive (cap hit): %v", nIncon, merged.Runs, merged.Inconclusive))
	}

	// ---- violations: known findings, replay, minimise
	findings := loadFindings()
	bySig := map[string][]ViolationRecord{}
	for _, v := range merged.Violations {
		bySig[v.Sig] = append(bySig[v.Sig], v)
	}
	var sigList []string
	for s := range bySig {
		sigList = append(sigList, s)
	}
	sort.Strings(sigList)
	knownSeen := map[int]int{}
	var newViol []string
	_ = os.MkdirAll(filepath.Join(verifDir, "replays"), 0o755)
	nReplay := 0
	for _, sig := range sigList {
		known := -1
		for i, f := range findings {
			if f.Status == "open" && f.Property == prop && sigMatch(f.Signature, sig) {
				known = i
				break
			}
		}
		if known >= 0 {
			knownSeen[known] += merged.ViolCounts[sig]
			continue
		}
		// confirm + minimise in a fresh process
		recs := bySig[sig]
		sort.Slice(recs, func(i, j int) bool { return len(recs[i].Tape[0])+len(recs[i].Tape[1]) < len(recs[j].Tape[0])+len(recs[j].Tape[1]) })
		rec := recs[0]
		nReplay++
		if nReplay > 10 {
			// report the remaining signatures in one line each; the exit status is 1 already
			newViol = append(newViol, "")
			fmt.Printf("VIOLATION property=%s replay=- (not minimised: more than 10 distinct signatures) signature=%s (x%d)\n", prop, sig, merged.ViolCounts[sig])
			continue
		}
		if nReplay > 6 {
			// still a violation, reported with its unminimised tape
			rp := writeReplay(prop, tier, key, seed, rec)
			newViol = append(newViol, rp)
			fmt.Printf("VIOLATION property=%s replay=%s\n  signature=%s (x%d) %s\n", prop, rp, sig, merged.ViolCounts[sig], rec.Msg)
			continue
		}
		in := filepath.Join(tmp, fmt.Sprintf("replay_in_%d.json", nReplay))
		outp := filepath.Join(tmp, fmt.Sprintf("replay_out_%d.json", nReplay))
		rf := ReplayFile{Property: prop, Engine: pi.Engine, Tier: tier, TreeHash: key, Record: rec}
		b, _ := json.Marshal(rf)
		_ = os.WriteFile(in, b, 0o644)
		out, err := runWorker(bin, []string{"VERIF_PROP=" + prop, "VERIF_REPLAY=" + in, "VERIF_OUT=" + outp, "VERIF_SHRINK=1", "VERIF_SHRINK_S=" + strconv.Itoa(envInt("VERIF_SHRINK_S", 40))}, 10*time.Minute)
		var rr ReplayResult
		if err == nil {
			b, _ := os.ReadFile(outp)
			err = json.Unmarshal(b, &rr)
		}
		if err != nil {
			infra = append(infra, fmt.Sprintf("replay of %s failed: %v\n%s", sig, err, out))
			continue
		}
		if !rr.Reproduced {
			infra = append(infra, fmt.Sprintf("nondeterminism: violation %s (seed %d) did not reproduce in a fresh process (got %v)", sig, rec.Seed, rr.Sigs))
			continue
		}
		if rr.Infra != "" {
			infra = append(infra, fmt.Sprintf("replay of %s: %s", sig, rr.Infra))
		}
		rp := writeReplay(prop, tier, key, seed, *rr.Record)
		newViol = append(newViol, rp)
		fmt.Printf("VIOLATION property=%s replay=%s\n  signature=%s (x%d in this batch)\n  %s\n  minimised: %s\n", prop, rp, sig, merged.ViolCounts[sig], rr.Record.Msg, string(rr.Record.Shrunk))
	}
	for i, f := range findings {
		if f.Status == "open" && f.Property == prop {
			fmt.Printf("KNOWN-FINDING: property=%s %s [signature %s; seen %d times in this batch]\n", prop, f.What, f.Signature, knownSeen[i])
		}
	}

	// ---- mandatory probes (thorough)
	if tier == "thorough" && len(infra) == 0 {
		for _, p := range pi.MustProbes {
			if merged.Probes[p] == 0 {
				infra = append(infra, fmt.Sprintf("probe %q was never hit in the thorough tier: the workload does not reach what it claims to", p))
			}
		}
	}

	wall := time.Since(t0).Seconds()
	// ---- evidence
	if len(samples) > 3 {
		samples = samples[:3]
	}
	sampleVals := []any{}
	for _, s := range samples {
		var v any
		_ = json.Unmarshal(s, &v)
		sampleVals = append(sampleVals, v)
	}
	if len(sampleVals) == 0 {
		sampleVals = append(sampleVals, "no run completed")
	}
	ev := map[string]any{
		"property_id": prop,
		"tier":        tier,
		"seed":        seed,
		"level":       pi.Level,
		"wall_s":      wall,
		"violations":  len(newViol),
		"assumptions": append(append([]string{}, commonAssume...), pi.Assume...),
		"coverage": map[string]any{
			"evaluations":          merged.Runs,
			"distinct_nontrivial":  len(sigs),
			"nontrivial_runs":      merged.NonTrivial,
			"rule":                 pi.Rule,
			"samples":              sampleVals,
			"engine":               pi.Engine,
			"workers":              workers,
			"budget_s_per_worker":  budget,
			"runs_per_hour":        int(float64(merged.Runs) / maxf(wall, 0.001) * 3600),
			"seeds":                fmt.Sprintf("run i of worker w uses PRNG seed fnv64(%d|%s|w|i); %d seeds consumed", seed, prop, merged.Runs),
			"simulated_time_s":     float64(merged.FakeNs) / 1e9,
			"scheduler_steps":      merged.Steps,
			"simulated_syscalls":   merged.Ops,
			"simulated_processes":  merged.Procs,
			"faults_fired":         merged.Faults,
			"probes":               merged.Probes,
			"scenario_variants":    merged.Variants,
			"inconclusive_runs":    merged.Inconclusive,
			"determinism_rechecks": merged.DetChecked,
			"known_findings_seen":  knownSeenList(findings, knownSeen),
			"violation_signatures": merged.ViolCounts,
			"tree_hash":            key,
			"infrastructure":       infra,
			"real_code":            engineReal[pi.Engine],
			"stubs":                engineStubs[pi.Engine],
		},
	}
	evDir := filepath.Join(verifDir, "evidence")
	if v := os.Getenv("VERIF_EVIDENCE_DIR"); v != "" {
		evDir = v // trials against seeded changes: their evidence must not replace that of the tree itself
	}
	_ = os.MkdirAll(evDir, 0o755)
	b, _ := json.MarshalIndent(ev, "", " ")
	if err := os.WriteFile(filepath.Join(evDir, prop+".json"), b, 0o644); err != nil {
		infra = append(infra, "cannot write evidence: "+err.Error())
	}

	fmt.Printf("check %s %s: runs=%d nontrivial=%d distinct_schedules=%d steps=%d sim_time=%.0fs faults=%v probes=%v wall=%.1fs seed=%d tree=%s\n",
		prop, tier, merged.Runs, merged.NonTrivial, len(sigs), merged.Steps, float64(merged.FakeNs)/1e9, merged.Faults, merged.Probes, wall, seed, key)
	for _, i := range infra {
		fmt.Fprintln(os.Stderr, "INFRA:", i) // also next to violations: an unmet probe must not hide behind them
	}
	os.RemoveAll(tmp) // os.Exit below skips the deferred removal
	if len(newViol) > 0 {
		os.Exit(1)
	}
	if len(infra) > 0 {
		fmt.Fprintln(os.Stderr, "runner: infrastructure trouble — exit 2 (no property verdict)")
		os.Exit(2)
	}
	os.Exit(0)
}

func maxf(a, b float64) float64 {
	if a > b {
		return a
	}
	return b
}

func knownSeenList(f []Finding, seen map[int]int) []map[string]any {
	out := []map[string]any{}
	for i, n := range seen {
		out = append(out, map[string]any{"signature": f[i].Signature, "count": n})
	}
	return out
}

func writeReplay(prop, tier, key string, seed int, rec ViolationRecord) string {
	dir := filepath.Join(verifDir, "replays")
	name := ""
	for n := 0; ; n++ {
		name = filepath.Join(dir, fmt.Sprintf("%s-%d-%d.json", prop, seed, n))
		if _, err := os.Stat(name); os.IsNotExist(err) {
			break
		}
	}
	rf := ReplayFile{Property: prop, Engine: props[prop].Engine, Tier: tier, TreeHash: key, Record: rec}
	b, _ := json.MarshalIndent(rf, "", " ")
	_ = os.WriteFile(name, b, 0o644)
	return name
}

var _ = io.Discard
