// simrewrite instruments a scratch copy of the blackdagger module for
// deterministic simulation. It never touches /repo: it is pointed at a copy.
//
//	R1 import swap (os, sync, net, os/exec, os/signal, syscall, path/filepath, log, fsnotify)
//	R2 go statements -> simrt.Go with spawn-time argument evaluation
//	R3 range over map -> sorted, seeded key order
//	R4 channel send/receive/range/select, time.Sleep -> scheduling points + kill awareness
//	R6 cobra.CheckErr -> simulated process exit
//
// usage: simrewrite -dir <module root> [-stats out.json]
package main

import (
	"bytes"
	"encoding/json"
	"flag"
	"fmt"
	"go/ast"
	"go/format"
	"go/token"
	"go/types"
	"os"
	"sort"
	"strconv"
	"strings"

	"golang.org/x/tools/go/ast/astutil"
	"golang.org/x/tools/go/packages"
)

const simBase = "github.com/ErdemOzgen/blackdagger/internal/verifsim/"
const rtAlias = "verifsimrt"

var swaps = map[string][2]string{
	"os":                           {"os", simBase + "simos"},
	"sync":                         {"sync", simBase + "simsync"},
	"net":                          {"net", simBase + "simnet"},
	"os/exec":                      {"exec", simBase + "simexec"},
	"os/signal":                    {"signal", simBase + "simsignal"},
	"syscall":                      {"syscall", simBase + "simsyscall"},
	"path/filepath":                {"filepath", simBase + "simfilepath"},
	"log":                          {"log", simBase + "simlog"},
	"github.com/fsnotify/fsnotify": {"fsnotify", simBase + "simfsnotify"},
}

type stats struct {
	Files       int            `json:"files"`
	ImportSwaps map[string]int `json:"import_swaps"`
	GoStmts     int            `json:"go_stmts"`
	MapRanges   int            `json:"map_ranges"`
	ChanRanges  int            `json:"chan_ranges"`
	Recvs       int            `json:"recvs"`
	Sends       int            `json:"sends"`
	Selects     int            `json:"selects"`
	Sleeps      int            `json:"sleeps"`
	CheckErrs   int            `json:"checkerrs"`
}

var st = stats{ImportSwaps: map[string]int{}}

type rewriter struct {
	pkg    *packages.Package
	file   *ast.File
	fset   *token.FileSet
	usedRT bool
	n      int
	// nodes that must not be rewritten (top-level comm of a select clause)
	skip map[ast.Node]bool
}

func (r *rewriter) fresh(prefix string) string {
	r.n++
	return "_sim" + prefix + strconv.Itoa(r.n)
}

func rt(name string) ast.Expr {
	return &ast.SelectorExpr{X: ast.NewIdent(rtAlias), Sel: ast.NewIdent(name)}
}

func call(fn ast.Expr, args ...ast.Expr) *ast.CallExpr {
	return &ast.CallExpr{Fun: fn, Args: args}
}

func stmtCall(fn ast.Expr, args ...ast.Expr) ast.Stmt {
	return &ast.ExprStmt{X: call(fn, args...)}
}

func (r *rewriter) typeOf(e ast.Expr) types.Type {
	if tv, ok := r.pkg.TypesInfo.Types[e]; ok {
		return tv.Type
	}
	return nil
}

func (r *rewriter) isChan(e ast.Expr) bool {
	t := r.typeOf(e)
	if t == nil {
		return false
	}
	_, ok := t.Underlying().(*types.Chan)
	return ok
}

func (r *rewriter) isMap(e ast.Expr) bool {
	t := r.typeOf(e)
	if t == nil {
		return false
	}
	_, ok := t.Underlying().(*types.Map)
	return ok
}

func (r *rewriter) calleeIs(c *ast.CallExpr, pkgPath, name string) bool {
	sel, ok := c.Fun.(*ast.SelectorExpr)
	if !ok {
		return false
	}
	obj := r.pkg.TypesInfo.Uses[sel.Sel]
	fn, ok := obj.(*types.Func)
	if !ok || fn.Pkg() == nil {
		return false
	}
	return fn.Pkg().Path() == pkgPath && fn.Name() == name && fn.Type().(*types.Signature).Recv() == nil
}

func core(s ast.Stmt) ast.Stmt {
	for {
		l, ok := s.(*ast.LabeledStmt)
		if !ok {
			return s
		}
		s = l.Stmt
	}
}

func setCore(s ast.Stmt, nc ast.Stmt) ast.Stmt {
	if l, ok := s.(*ast.LabeledStmt); ok {
		l.Stmt = setCore(l.Stmt, nc)
		return l
	}
	return nc
}

// rewriteList handles the statement-list level rewrites (things that need a
// statement inserted before another one).
func (r *rewriter) rewriteList(list []ast.Stmt) []ast.Stmt {
	var out []ast.Stmt
	for _, s := range list {
		switch c := core(s).(type) {
		case *ast.SelectStmt:
			st.Selects++
			r.usedRT = true
			out = append(out, r.rewriteSelect(s, c)...)
		case *ast.RangeStmt:
			switch {
			case r.isChan(c.X):
				st.ChanRanges++
				r.usedRT = true
				chv := r.fresh("ch")
				okv := r.fresh("ok")
				out = append(out, &ast.AssignStmt{Lhs: []ast.Expr{ast.NewIdent(chv)}, Tok: token.DEFINE, Rhs: []ast.Expr{c.X}})
				var pre []ast.Stmt
				recv := call(rt("Recv2"), ast.NewIdent(chv))
				key := c.Key
				if key == nil {
					key = ast.NewIdent("_")
				}
				if c.Tok == token.ASSIGN && c.Key != nil {
					pre = append(pre,
						&ast.DeclStmt{Decl: &ast.GenDecl{Tok: token.VAR, Specs: []ast.Spec{&ast.ValueSpec{Names: []*ast.Ident{ast.NewIdent(okv)}, Type: ast.NewIdent("bool")}}}},
						&ast.AssignStmt{Lhs: []ast.Expr{key, ast.NewIdent(okv)}, Tok: token.ASSIGN, Rhs: []ast.Expr{recv}})
				} else {
					pre = append(pre, &ast.AssignStmt{Lhs: []ast.Expr{key, ast.NewIdent(okv)}, Tok: token.DEFINE, Rhs: []ast.Expr{recv}})
				}
				pre = append(pre, &ast.IfStmt{Cond: &ast.UnaryExpr{Op: token.NOT, X: ast.NewIdent(okv)}, Body: &ast.BlockStmt{List: []ast.Stmt{&ast.BranchStmt{Tok: token.BREAK}}}})
				body := &ast.BlockStmt{List: append(pre, c.Body.List...)}
				out = append(out, setCore(s, &ast.ForStmt{Body: body}))
			case r.isMap(c.X):
				st.MapRanges++
				r.usedRT = true
				mv := r.fresh("m")
				out = append(out, &ast.AssignStmt{Lhs: []ast.Expr{ast.NewIdent(mv)}, Tok: token.DEFINE, Rhs: []ast.Expr{c.X}})
				var pre []ast.Stmt
				kv := r.fresh("k")
				keyIsBlank := c.Key == nil || isBlank(c.Key)
				valIsBlank := c.Value == nil || isBlank(c.Value)
				okv := r.fresh("ok")
				idx := &ast.IndexExpr{X: ast.NewIdent(mv), Index: ast.NewIdent(kv)}
				if c.Tok == token.ASSIGN {
					if !keyIsBlank {
						pre = append(pre, &ast.AssignStmt{Lhs: []ast.Expr{c.Key}, Tok: token.ASSIGN, Rhs: []ast.Expr{ast.NewIdent(kv)}})
					}
					if !valIsBlank {
						pre = append(pre,
							&ast.DeclStmt{Decl: &ast.GenDecl{Tok: token.VAR, Specs: []ast.Spec{&ast.ValueSpec{Names: []*ast.Ident{ast.NewIdent(okv)}, Type: ast.NewIdent("bool")}}}},
							&ast.AssignStmt{Lhs: []ast.Expr{c.Value, ast.NewIdent(okv)}, Tok: token.ASSIGN, Rhs: []ast.Expr{idx}},
							&ast.IfStmt{Cond: &ast.UnaryExpr{Op: token.NOT, X: ast.NewIdent(okv)}, Body: &ast.BlockStmt{List: []ast.Stmt{&ast.BranchStmt{Tok: token.CONTINUE}}}})
					}
				} else {
					valName := ast.Expr(ast.NewIdent("_"))
					if !valIsBlank {
						valName = c.Value
					}
					pre = append(pre,
						&ast.AssignStmt{Lhs: []ast.Expr{valName, ast.NewIdent(okv)}, Tok: token.DEFINE, Rhs: []ast.Expr{idx}},
						&ast.IfStmt{Cond: &ast.UnaryExpr{Op: token.NOT, X: ast.NewIdent(okv)}, Body: &ast.BlockStmt{List: []ast.Stmt{&ast.BranchStmt{Tok: token.CONTINUE}}}})
					if !keyIsBlank {
						pre = append(pre, &ast.AssignStmt{Lhs: []ast.Expr{c.Key}, Tok: token.DEFINE, Rhs: []ast.Expr{ast.NewIdent(kv)}},
							&ast.AssignStmt{Lhs: []ast.Expr{ast.NewIdent("_")}, Tok: token.ASSIGN, Rhs: []ast.Expr{c.Key}})
					}
				}
				nr := &ast.RangeStmt{
					Key: ast.NewIdent("_"), Value: ast.NewIdent(kv), Tok: token.DEFINE,
					X:    call(rt("MapKeys"), ast.NewIdent(mv)),
					Body: &ast.BlockStmt{List: append(pre, c.Body.List...)},
				}
				out = append(out, setCore(s, nr))
			default:
				out = append(out, s)
			}
		case *ast.SendStmt:
			if r.skip[c] {
				out = append(out, s)
				break
			}
			st.Sends++
			r.usedRT = true
			sel := &ast.SelectStmt{Body: &ast.BlockStmt{List: []ast.Stmt{
				&ast.CommClause{Comm: c, Body: []ast.Stmt{stmtCall(rt("Woke"))}},
				&ast.CommClause{Comm: &ast.ExprStmt{X: &ast.UnaryExpr{Op: token.ARROW, X: call(rt("Dead"))}}, Body: []ast.Stmt{stmtCall(rt("Die"))}},
			}}}
			for _, cl := range sel.Body.List {
				cc := cl.(*ast.CommClause)
				r.skip[cc.Comm] = true
				if es, ok := cc.Comm.(*ast.ExprStmt); ok {
					r.skip[es.X] = true
				}
			}
			r.skip[sel] = true
			blk := &ast.BlockStmt{List: []ast.Stmt{stmtCall(rt("Yield")), sel}}
			out = append(out, setCore(s, blk))
		case *ast.GoStmt:
			st.GoStmts++
			r.usedRT = true
			out = append(out, setCore(s, r.rewriteGo(c)))
		default:
			out = append(out, s)
		}
	}
	return out
}

func isBlank(e ast.Expr) bool {
	id, ok := e.(*ast.Ident)
	return ok && id.Name == "_"
}

func ident(n string) *ast.Ident { return ast.NewIdent(n) }

func define(lhs []ast.Expr, rhs ...ast.Expr) ast.Stmt {
	return &ast.AssignStmt{Lhs: lhs, Tok: token.DEFINE, Rhs: rhs}
}

func assign(lhs []ast.Expr, rhs ...ast.Expr) ast.Stmt {
	return &ast.AssignStmt{Lhs: lhs, Tok: token.ASSIGN, Rhs: rhs}
}

func (r *rewriter) isConstOrNil(e ast.Expr) bool {
	tv, ok := r.pkg.TypesInfo.Types[e]
	return ok && (tv.Value != nil || tv.IsNil())
}

// rewriteSelect makes the choice among ready cases a seeded one (Go picks at
// random): the cases are polled one by one, non-blockingly, in an order drawn
// from the tape; only if none is ready does the goroutine block in a select
// over all of them (plus process death). The bodies move into a switch, where
// an unlabelled break has the same meaning as in a select.
func (r *rewriter) rewriteSelect(orig ast.Stmt, sel *ast.SelectStmt) []ast.Stmt {
	type caseInfo struct {
		cc       *ast.CommClause
		ch       ast.Expr // hoisted channel ident
		sendVal  ast.Expr
		isSend   bool
		lhs      []ast.Expr // receive targets (nil = value discarded)
		tok      token.Token
		v, ok, g string
	}
	var cases []*caseInfo
	var def *ast.CommClause
	var pre []ast.Stmt
	for _, cl := range sel.Body.List {
		cc := cl.(*ast.CommClause)
		if cc.Comm == nil {
			def = cc
			continue
		}
		ci := &caseInfo{cc: cc, g: r.fresh("g")}
		hoist := func(e ast.Expr, p string) ast.Expr {
			n := r.fresh(p)
			pre = append(pre, define([]ast.Expr{ident(n)}, e))
			return ident(n)
		}
		switch cm := cc.Comm.(type) {
		case *ast.SendStmt:
			ci.isSend = true
			ci.ch = hoist(cm.Chan, "c")
			if r.isConstOrNil(cm.Value) {
				ci.sendVal = cm.Value
			} else {
				ci.sendVal = hoist(cm.Value, "s")
			}
		case *ast.ExprStmt:
			ci.ch = hoist(cm.X.(*ast.UnaryExpr).X, "c")
		case *ast.AssignStmt:
			ci.ch = hoist(cm.Rhs[0].(*ast.UnaryExpr).X, "c")
			ci.lhs = cm.Lhs
			ci.tok = cm.Tok
		}
		cases = append(cases, ci)
	}
	if len(cases) == 0 {
		// select {} or only default: nothing to choose
		dead := &ast.CommClause{Comm: &ast.ExprStmt{X: &ast.UnaryExpr{Op: token.ARROW, X: call(rt("Dead"))}}, Body: []ast.Stmt{stmtCall(rt("Die"))}}
		r.skip[dead.Comm] = true
		r.skip[dead.Comm.(*ast.ExprStmt).X] = true
		if def == nil {
			sel.Body.List = append(sel.Body.List, dead)
		}
		return []ast.Stmt{stmtCall(rt("Yield")), orig}
	}
	// slots
	for _, ci := range cases {
		if ci.lhs != nil {
			ci.v, ci.ok = r.fresh("v"), r.fresh("ok")
			pre = append(pre, define([]ast.Expr{ident(ci.v), ident(ci.ok), ident(ci.g)}, call(rt("RecvSlot"), ci.ch)))
			pre = append(pre, assign([]ast.Expr{ident("_"), ident("_")}, ident(ci.v), ident(ci.ok)))
		} else {
			pre = append(pre, define([]ast.Expr{ident(ci.g)}, ident("false")))
		}
	}
	mkComm := func(ci *caseInfo) ast.Stmt {
		var comm ast.Stmt
		switch {
		case ci.isSend:
			comm = &ast.SendStmt{Chan: ci.ch, Value: ci.sendVal}
		case ci.lhs != nil:
			u := &ast.UnaryExpr{Op: token.ARROW, X: ci.ch}
			r.skip[u] = true
			comm = assign([]ast.Expr{ident(ci.v), ident(ci.ok)}, u)
		default:
			u := &ast.UnaryExpr{Op: token.ARROW, X: ci.ch}
			r.skip[u] = true
			comm = &ast.ExprStmt{X: u}
		}
		r.skip[comm] = true
		return comm
	}
	anyGot := func() ast.Expr {
		var e ast.Expr
		for _, ci := range cases {
			if e == nil {
				e = ident(ci.g)
			} else {
				e = &ast.BinaryExpr{X: e, Op: token.LOR, Y: ident(ci.g)}
			}
		}
		return e
	}
	// poll loop
	idx := r.fresh("i")
	var pollCases []ast.Stmt
	for i, ci := range cases {
		one := &ast.SelectStmt{Body: &ast.BlockStmt{List: []ast.Stmt{
			&ast.CommClause{Comm: mkComm(ci), Body: []ast.Stmt{assign([]ast.Expr{ident(ci.g)}, ident("true"))}},
			&ast.CommClause{},
		}}}
		r.skip[one] = true
		pollCases = append(pollCases, &ast.CaseClause{List: []ast.Expr{&ast.BasicLit{Kind: token.INT, Value: strconv.Itoa(i)}}, Body: []ast.Stmt{one}})
	}
	poll := &ast.RangeStmt{Key: ident("_"), Value: ident(idx), Tok: token.DEFINE, X: call(rt("SelectOrder"), &ast.BasicLit{Kind: token.INT, Value: strconv.Itoa(len(cases))}),
		Body: &ast.BlockStmt{List: []ast.Stmt{
			&ast.SwitchStmt{Tag: ident(idx), Body: &ast.BlockStmt{List: pollCases}},
			&ast.IfStmt{Cond: anyGot(), Body: &ast.BlockStmt{List: []ast.Stmt{&ast.BranchStmt{Tok: token.BREAK}}}},
		}}}
	stmts := append(pre, stmtCall(rt("Yield")), poll)
	if def == nil {
		var blk []ast.Stmt
		for _, ci := range cases {
			blk = append(blk, &ast.CommClause{Comm: mkComm(ci), Body: []ast.Stmt{assign([]ast.Expr{ident(ci.g)}, ident("true"))}})
		}
		deadComm := &ast.ExprStmt{X: &ast.UnaryExpr{Op: token.ARROW, X: call(rt("Dead"))}}
		r.skip[deadComm] = true
		r.skip[deadComm.X] = true
		blk = append(blk, &ast.CommClause{Comm: deadComm, Body: []ast.Stmt{stmtCall(rt("Die"))}})
		bsel := &ast.SelectStmt{Body: &ast.BlockStmt{List: blk}}
		r.skip[bsel] = true
		stmts = append(stmts, &ast.IfStmt{Cond: &ast.UnaryExpr{Op: token.NOT, X: &ast.ParenExpr{X: anyGot()}}, Body: &ast.BlockStmt{List: []ast.Stmt{bsel, stmtCall(rt("Woke"))}}})
	}
	// dispatch
	var disp []ast.Stmt
	for _, ci := range cases {
		var body []ast.Stmt
		if ci.lhs != nil {
			rhs := []ast.Expr{ident(ci.v)}
			if len(ci.lhs) == 2 {
				rhs = append(rhs, ident(ci.ok))
			}
			allBlank := true
			for _, l := range ci.lhs {
				if !isBlank(l) {
					allBlank = false
				}
			}
			if !allBlank {
				body = append(body, &ast.AssignStmt{Lhs: ci.lhs, Tok: ci.tok, Rhs: rhs})
			}
		}
		body = append(body, ci.cc.Body...)
		disp = append(disp, &ast.CaseClause{List: []ast.Expr{ident(ci.g)}, Body: body})
	}
	if def != nil {
		disp = append(disp, &ast.CaseClause{Body: def.Body})
	}
	var dispatch ast.Stmt = &ast.SwitchStmt{Body: &ast.BlockStmt{List: disp}}
	// a label on the select moves to the dispatch switch (break L keeps its meaning)
	for o := orig; ; {
		l, ok := o.(*ast.LabeledStmt)
		if !ok {
			break
		}
		dispatch = &ast.LabeledStmt{Label: l.Label, Stmt: dispatch}
		o = l.Stmt
	}
	stmts = append(stmts, dispatch)
	return []ast.Stmt{&ast.BlockStmt{List: stmts}}
}

func (r *rewriter) rewriteGo(g *ast.GoStmt) ast.Stmt {
	c := g.Call
	var pre []ast.Stmt
	hoist := func(e ast.Expr, p string) ast.Expr {
		v := r.fresh(p)
		pre = append(pre, &ast.AssignStmt{Lhs: []ast.Expr{ast.NewIdent(v)}, Tok: token.DEFINE, Rhs: []ast.Expr{e}})
		return ast.NewIdent(v)
	}
	fun := c.Fun
	switch f := fun.(type) {
	case *ast.FuncLit:
	case *ast.Ident:
		if _, isFunc := r.pkg.TypesInfo.Uses[f].(*types.Func); !isFunc {
			if _, isBuiltin := r.pkg.TypesInfo.Uses[f].(*types.Builtin); !isBuiltin {
				fun = hoist(fun, "f")
			}
		}
	case *ast.SelectorExpr:
		if sel, ok := r.pkg.TypesInfo.Selections[f]; ok {
			_ = sel
			fun = hoist(fun, "f") // method value: bind the receiver now
		} else if _, isFunc := r.pkg.TypesInfo.Uses[f.Sel].(*types.Func); !isFunc {
			fun = hoist(fun, "f")
		}
	default:
		fun = hoist(fun, "f")
	}
	args := make([]ast.Expr, len(c.Args))
	for i, a := range c.Args {
		tv, ok := r.pkg.TypesInfo.Types[a]
		switch {
		case ok && tv.Value != nil: // constant
			args[i] = a
		case ok && tv.IsNil():
			args[i] = a
		default:
			if _, isLit := a.(*ast.FuncLit); isLit {
				args[i] = a
			} else {
				args[i] = hoist(a, "a")
			}
		}
	}
	nc := &ast.CallExpr{Fun: fun, Args: args, Ellipsis: c.Ellipsis}
	if c.Ellipsis != token.NoPos {
		nc.Ellipsis = 1
	}
	spawn := stmtCall(rt("Go"), &ast.FuncLit{Type: &ast.FuncType{Params: &ast.FieldList{}}, Body: &ast.BlockStmt{List: []ast.Stmt{&ast.ExprStmt{X: nc}}}})
	if len(pre) == 0 {
		return spawn
	}
	return &ast.BlockStmt{List: append(pre, spawn)}
}

func (r *rewriter) run() {
	// pass 1: statement lists (post-order so nested lists are done first)
	astutil.Apply(r.file, nil, func(c *astutil.Cursor) bool {
		switch n := c.Node().(type) {
		case *ast.BlockStmt:
			n.List = r.rewriteList(n.List)
		case *ast.CaseClause:
			n.Body = r.rewriteList(n.Body)
		case *ast.CommClause:
			n.Body = r.rewriteList(n.Body)
		}
		return true
	})
	// pass 2: expressions
	astutil.Apply(r.file, func(c *astutil.Cursor) bool {
		switch n := c.Node().(type) {
		case *ast.UnaryExpr:
			if n.Op != token.ARROW || r.skip[n] {
				return true
			}
			st.Recvs++
			r.usedRT = true
			fn := "Recv"
			switch p := c.Parent().(type) {
			case *ast.AssignStmt:
				if len(p.Lhs) == 2 && len(p.Rhs) == 1 {
					fn = "Recv2"
				}
			case *ast.ValueSpec:
				if len(p.Names) == 2 && len(p.Values) == 1 {
					fn = "Recv2"
				}
			}
			c.Replace(call(rt(fn), n.X))
		case *ast.CallExpr:
			if r.calleeIs(n, "time", "Sleep") {
				st.Sleeps++
				r.usedRT = true
				n.Fun = rt("Sleep")
			} else if r.calleeIs(n, "github.com/spf13/cobra", "CheckErr") {
				st.CheckErrs++
				r.usedRT = true
				n.Fun = rt("CheckErr")
			}
		}
		return true
	}, nil)
}

func keepComment(cg *ast.CommentGroup) bool {
	for _, c := range cg.List {
		t := c.Text
		if strings.HasPrefix(t, "//go:") || strings.HasPrefix(t, "// +build") || strings.HasPrefix(t, "//line ") {
			return true
		}
	}
	return false
}

func main() {
	dir := flag.String("dir", "", "module root of the scratch copy")
	statsOut := flag.String("stats", "", "write rewrite statistics here")
	flag.Parse()
	if *dir == "" {
		fmt.Fprintln(os.Stderr, "simrewrite: -dir required")
		os.Exit(2)
	}
	cfg := &packages.Config{
		Mode:  packages.NeedName | packages.NeedFiles | packages.NeedCompiledGoFiles | packages.NeedSyntax | packages.NeedTypes | packages.NeedTypesInfo | packages.NeedImports | packages.NeedDeps,
		Dir:   *dir,
		Tests: false,
		Env:   append(os.Environ(), "GOFLAGS=-mod=mod", "GOPROXY=off", "GOSUMDB=off"),
	}
	pkgs, err := packages.Load(cfg, "./...")
	if err != nil {
		fmt.Fprintln(os.Stderr, "simrewrite: load:", err)
		os.Exit(2)
	}
	bad := false
	for _, p := range pkgs {
		if strings.Contains(p.PkgPath, "/internal/verifsim") {
			continue
		}
		for _, e := range p.Errors {
			fmt.Fprintln(os.Stderr, "simrewrite: package error:", e)
			bad = true
		}
	}
	if bad {
		os.Exit(2)
	}
	sort.Slice(pkgs, func(i, j int) bool { return pkgs[i].PkgPath < pkgs[j].PkgPath })
	for _, p := range pkgs {
		if strings.Contains(p.PkgPath, "/internal/verifsim") {
			continue
		}
		for i, f := range p.Syntax {
			name := p.CompiledGoFiles[i]
			if !strings.HasSuffix(name, ".go") || strings.HasSuffix(name, "_test.go") {
				continue
			}
			r := &rewriter{pkg: p, file: f, fset: p.Fset, skip: map[ast.Node]bool{}}
			r.run()
			changed := r.usedRT
			// R1
			for _, im := range f.Imports {
				path, _ := strconv.Unquote(im.Path.Value)
				if sw, ok := swaps[path]; ok {
					if im.Name == nil {
						im.Name = ast.NewIdent(sw[0])
					}
					im.Path.Value = strconv.Quote(sw[1])
					im.EndPos = 0
					st.ImportSwaps[path]++
					changed = true
				}
			}
			if !changed {
				continue
			}
			if r.usedRT {
				astutil.AddNamedImport(p.Fset, f, rtAlias, simBase+"simrt")
			}
			var kept []*ast.CommentGroup
			for _, cg := range f.Comments {
				if keepComment(cg) {
					kept = append(kept, cg)
				}
			}
			f.Comments = kept
			var buf bytes.Buffer
			if err := format.Node(&buf, p.Fset, f); err != nil {
				fmt.Fprintf(os.Stderr, "simrewrite: print %s: %v\n", name, err)
				os.Exit(2)
			}
			if err := os.WriteFile(name, buf.Bytes(), 0o644); err != nil {
				fmt.Fprintln(os.Stderr, "simrewrite:", err)
				os.Exit(2)
			}
			st.Files++
		}
	}
	if *statsOut != "" {
		b, _ := json.MarshalIndent(st, "", " ")
		_ = os.WriteFile(*statsOut, b, 0o644)
	}
}
